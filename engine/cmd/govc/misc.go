package main

import (
	"fmt"
	"go/ast"
	"go/constant"
	"go/token"
	"go/types"
	"strings"

	"golang.org/x/tools/go/ssa"
)

// ---------------------------------------------------------------------------
// ghost variables

func (fc *FnCtx) ghostType(name string) types.Type {
	t, ok := fc.eng.ghosts[name]
	if !ok {
		userErr("undeclared ghost variable %q", name)
	}
	return t
}

func (fc *FnCtx) ghostGet(st *State, name string) Val {
	t := fc.ghostType(name)
	ls := layout(t)
	v := Val{T: t}
	for k, lf := range ls {
		v.L = append(v.L, st.get(fmt.Sprintf("ghost|%s|%d", name, k), lf.Sort))
	}
	return v
}

func (fc *FnCtx) ghostSet(name string, v Val, env *Env) {
	t := fc.ghostType(name)
	v = env.typed(v, t)
	for k, lf := range layout(t) {
		fc.cur.set(fmt.Sprintf("ghost|%s|%d", name, k), lf.Sort, v.L[k])
	}
}

// ---------------------------------------------------------------------------
// maps: one (dom, val...) pair of arrays per map type, indexed by map reference then key.
// Only single-leaf key types are supported.

func (fc *FnCtx) mapNames(mt *types.Map) (keySort string, dom string, vals []string, valSorts []string, ok bool) {
	kl := layout(mt.Key())
	if len(kl) != 1 {
		return "", "", nil, nil, false
	}
	keySort = kl[0].Sort
	key := typeKey(mt)
	dom = "M|" + key + "|dom"
	for k, lf := range layout(mt.Elem()) {
		vals = append(vals, fmt.Sprintf("M|%s|v%d", key, k))
		valSorts = append(valSorts, lf.Sort)
	}
	return keySort, dom, vals, valSorts, true
}

func (e *Engine) mapStateNames(mt *types.Map, ns *NameSet) {
	key := typeKey(mt)
	ns.Add("M|" + key + "|dom")
	ns.Add("M|" + key + "|len")
	for k := range layout(mt.Elem()) {
		ns.Add(fmt.Sprintf("M|%s|v%d", key, k))
	}
}

func (fc *FnCtx) mapInit(t types.Type, ref string) {
	mt := t.Underlying().(*types.Map)
	ks, dom, _, _, ok := fc.mapNames(mt)
	if !ok {
		return
	}
	ds := arraySort(SortRef, arraySort(ks, SortBool))
	empty := fmt.Sprintf("((as const %s) false)", arraySort(ks, SortBool))
	fc.cur.set(dom, ds, app("store", fc.cur.get(dom, ds), ref, empty))
}

func (fc *FnCtx) mapLen(st *State, m Val) string {
	mt := m.T.Underlying().(*types.Map)
	name := "M|" + typeKey(mt) + "|len"
	arr := st.get(name, arraySort(SortRef, bvSort(64)))
	return app("select", arr, m.L[0])
}

func (fc *FnCtx) mapHas(st *State, m Val, k Val) string {
	mt := m.T.Underlying().(*types.Map)
	ks, dom, _, _, ok := fc.mapNames(mt)
	if !ok {
		return fc.declareFresh("maphas", SortBool)
	}
	d := st.get(dom, arraySort(SortRef, arraySort(ks, SortBool)))
	return app("select", app("select", d, m.L[0]), k.L[0])
}

func (fc *FnCtx) mapGet(st *State, m Val, k Val) Val {
	mt := m.T.Underlying().(*types.Map)
	ks, _, vals, vsorts, ok := fc.mapNames(mt)
	if !ok {
		return fc.freshVal("mapget", mt.Elem())
	}
	has := fc.mapHas(st, m, k)
	z := zeroVal(mt.Elem())
	out := Val{T: mt.Elem()}
	for i, vn := range vals {
		arr := st.get(vn, arraySort(SortRef, arraySort(ks, vsorts[i])))
		out.L = append(out.L, ite(has, app("select", app("select", arr, m.L[0]), k.L[0]), z.L[i]))
	}
	return out
}

func (fc *FnCtx) doMapLookup(x *ssa.Lookup, m Val) {
	mt := x.X.Type().Underlying().(*types.Map)
	k := fc.coerce(fc.operand(x.Index), mt.Key())
	if _, _, _, _, ok := fc.mapNames(mt); !ok {
		fc.unsup("map with composite key")
		fc.setVal(x, fc.freshValWF("lookup", x.Type()))
		return
	}
	v := fc.mapGet(fc.cur, m, k)
	if x.CommaOk {
		out := Val{T: x.Type(), L: append(append([]string{}, v.L...), fc.mapHas(fc.cur, m, k))}
		fc.cur.assume(fc.wfFacts(v))
		fc.setVal(x, out)
		return
	}
	fc.cur.assume(fc.wfFacts(v))
	fc.setVal(x, v)
}

func (fc *FnCtx) doMapUpdate(x *ssa.MapUpdate) {
	fc.anchorArgs = []Val{fc.operand(x.Map), fc.operand(x.Key), fc.operand(x.Value)}
	fc.anchorBefore("mapupdate", x.Pos())
	defer func() {
		fc.anchorArgs = nil
		fc.anchorAfter("mapupdate", x.Pos())
	}()
	m := fc.operand(x.Map)
	mt := x.Map.Type().Underlying().(*types.Map)
	fc.oblige("nil", "mapupdate", not(eq(m.L[0], bvLit(0, 64))), x.Pos(), "assignment to entry in nil map")
	ks, dom, vals, vsorts, ok := fc.mapNames(mt)
	if !ok {
		fc.unsup("map with composite key")
		ns := newNameSet()
		fc.eng.mapStateNames(mt, ns)
		fc.cur = fc.cur.havocked(ns)
		return
	}
	k := fc.coerce(fc.operand(x.Key), mt.Key())
	v := fc.coerce(fc.operand(x.Value), mt.Elem())
	ds := arraySort(SortRef, arraySort(ks, SortBool))
	d := fc.cur.get(dom, ds)
	had := app("select", app("select", d, m.L[0]), k.L[0])
	fc.cur.set(dom, ds, app("store", d, m.L[0], app("store", app("select", d, m.L[0]), k.L[0], "true")))
	for i, vn := range vals {
		vs := arraySort(SortRef, arraySort(ks, vsorts[i]))
		a := fc.cur.get(vn, vs)
		fc.cur.set(vn, vs, app("store", a, m.L[0], app("store", app("select", a, m.L[0]), k.L[0], v.L[i])))
	}
	ln := "M|" + typeKey(mt) + "|len"
	ls := arraySort(SortRef, bvSort(64))
	la := fc.cur.get(ln, ls)
	fc.cur.set(ln, ls, app("store", la, m.L[0], ite(had, app("select", la, m.L[0]), app("bvadd", app("select", la, m.L[0]), bvLit(1, 64)))))
}

func (fc *FnCtx) mapDelete(m Val, k Val) {
	mt := m.T.Underlying().(*types.Map)
	ks, dom, _, _, ok := fc.mapNames(mt)
	if !ok {
		ns := newNameSet()
		fc.eng.mapStateNames(mt, ns)
		fc.cur = fc.cur.havocked(ns)
		return
	}
	k = fc.coerce(k, mt.Key())
	ds := arraySort(SortRef, arraySort(ks, SortBool))
	d := fc.cur.get(dom, ds)
	had := app("select", app("select", d, m.L[0]), k.L[0])
	// delete on a nil map is a no-op
	fc.cur.set(dom, ds, app("store", d, m.L[0], app("store", app("select", d, m.L[0]), k.L[0], "false")))
	ln := "M|" + typeKey(mt) + "|len"
	ls := arraySort(SortRef, bvSort(64))
	la := fc.cur.get(ln, ls)
	fc.cur.set(ln, ls, app("store", la, m.L[0], ite(had, app("bvsub", app("select", la, m.L[0]), bvLit(1, 64)), app("select", la, m.L[0]))))
}

// ---------------------------------------------------------------------------
// range / next (maps and strings): each Next is a havoc

func (fc *FnCtx) doNext(x *ssa.Next) {
	pos := x.Pos()
	if !pos.IsValid() {
		if rng, ok := x.Iter.(*ssa.Range); ok {
			pos = rng.Pos()
		}
	}
	fc.anchorArgs = nil
	fc.anchorBefore("next", pos)
	defer func() {
		res := fc.vals[x]
		fc.anchorArgs = nil
		fc.anchorRes = &res
		fc.anchorAfter("next", pos)
		fc.anchorRes = nil
	}()
	v := fc.freshValWF("next", x.Type())
	if rng, ok := x.Iter.(*ssa.Range); ok && !x.IsString {
		// (ok bool, k K, v V) over a map: ok ==> k is a key of the map and v its current value
		if mt, isMap := rng.X.Type().Underlying().(*types.Map); isMap {
			if _, _, _, _, supported := fc.mapNames(mt); supported {
				m := fc.operand(rng.X)
				nk := nLeaves(mt.Key())
				kv := Val{T: mt.Key(), L: v.L[1 : 1+nk]}
				vv := Val{T: mt.Elem(), L: v.L[1+nk:]}
				cur := fc.mapGet(fc.cur, m, kv)
				var eqs []string
				for i := range vv.L {
					if i < len(cur.L) {
						eqs = append(eqs, eq(vv.L[i], cur.L[i]))
					}
				}
				fc.cur.assume(implies(v.L[0], and(append(eqs, fc.mapHas(fc.cur, m, kv))...)))
			}
		}
	}
	if x.IsString {
		// (ok bool, index int, r rune): ok ==> 0 <= index < len(s)
		if rng, ok := x.Iter.(*ssa.Range); ok {
			s := fc.operand(rng.X)
			fc.cur.assume(implies(v.L[0], and(app("bvsle", bvLit(0, 64), v.L[1]), app("bvslt", v.L[1], app("strlen", s.L[0])))))
			// the iterator walks the string from byte 0 upwards: the index is the current position, the loop ends
			// when the position reaches the length, a byte below 0x80 is a rune of its own and advances by one
			name := fc.rangePosName(rng)
			pos := fc.cur.get(name, bvSort(64))
			ln := app("strlen", s.L[0])
			npos := fc.declareFresh("rangepos", bvSort(64))
			b := app("strat", s.L[0], pos)
			ascii := app("bvult", b, bvLit(0x80, 8))
			fc.cur.assume(and(
				eq(v.L[0], app("bvult", pos, ln)),
				implies(v.L[0], and(eq(v.L[1], pos), app("bvult", pos, npos), app("bvule", npos, ln))),
				implies(and(v.L[0], ascii), and(eq(npos, app("bvadd", pos, bvLit(1, 64))), eq(v.L[2], app("(_ zero_extend 24)", b)))),
				implies(not(v.L[0]), eq(npos, pos))))
			fc.cur = fc.cur.derive()
			fc.cur.set(name, bvSort(64), npos)
		}
	}
	fc.setVal(x, v)
}

// ---------------------------------------------------------------------------
// channels, select, go, defer

func (fc *FnCtx) chanClass(v ssa.Value) string {
	// class = name of the field or variable the channel was read from
	switch x := v.(type) {
	case *ssa.UnOp:
		if fa, ok := x.X.(*ssa.FieldAddr); ok {
			st := fa.X.Type().Underlying().(*types.Pointer).Elem().Underlying().(*types.Struct)
			return st.Field(fa.Field).Name()
		}
		if a, ok := x.X.(*ssa.Alloc); ok {
			return a.Comment
		}
		if fv, ok := x.X.(*ssa.FreeVar); ok {
			return fv.Name()
		}
	case *ssa.Parameter:
		return x.Name()
	case *ssa.FreeVar:
		return x.Name()
	case *ssa.Phi:
		return x.Comment
	case *ssa.MakeChan:
		// look for the debug name
		for name, ds := range fc.debugNames {
			for _, d := range ds {
				if d.val == v {
					return name
				}
			}
		}
	case *ssa.Field:
		st := x.X.Type().Underlying().(*types.Struct)
		return st.Field(x.Field).Name()
	}
	// any value bound to a source-level name
	best := ""
	for name, ds := range fc.debugNames {
		for _, d := range ds {
			if d.val == v && !d.isAddr {
				if best == "" || name < best {
					best = name
				}
			}
		}
	}
	return best
}

func (fc *FnCtx) chanInvariant(class string) ast.Expr {
	if fc.c != nil {
		if e, ok := fc.c.ChanInv[class]; ok {
			return e
		}
	}
	if e, ok := fc.eng.chanInv[class]; ok {
		return e
	}
	return nil
}

// chanInvFor: invariant by channel class name, else by element type ("type:<elem>").
func (fc *FnCtx) chanInvFor(ch ssa.Value) (ast.Expr, string) {
	class := fc.chanClass(ch)
	if inv := fc.chanInvariant(class); inv != nil {
		return inv, class
	}
	if ct, ok := ch.Type().Underlying().(*types.Chan); ok {
		tclass := "type:" + strings.ReplaceAll(typeKey(ct.Elem()), " ", "_")
		if inv := fc.chanInvariant(tclass); inv != nil {
			if class == "" {
				class = tclass
			}
			return inv, class
		}
	}
	return nil, class
}

func (fc *FnCtx) doSend(x *ssa.Send) {
	ch := fc.operand(x.Chan)
	_ = ch
	inv, class := fc.chanInvFor(x.Chan)
	anchor := "send " + class
	fc.anchorArgs = []Val{ch, fc.operand(x.X)}
	fc.anchorBefore(anchor, x.Pos())
	if inv != nil {
		env := fc.anchorEnv()
		env.bound["m"] = fc.operand(x.X)
		env.bound["ch"] = ch
		n := fc.ordinal("send:" + class)
		_ = n
		fc.oblige("chan-send", class, env.evalBool(inv), x.Pos(), "channel invariant of "+class)
	}
	fc.anchorAfter(anchor, x.Pos())
}

func (fc *FnCtx) doRecv(x *ssa.UnOp, ch Val) {
	inv, class := fc.chanInvFor(x.X)
	anchor := "recv " + class
	fc.anchorBefore(anchor, x.Pos())
	var elemT types.Type = x.Type()
	if x.CommaOk {
		elemT = x.Type().(*types.Tuple).At(0).Type()
	}
	v := fc.freshValWF("recv_"+class, elemT)
	okT := "true"
	if x.CommaOk {
		okT = fc.declareFresh("recvok", SortBool)
	}
	if inv != nil {
		env := fc.anchorEnv()
		env.bound["m"] = v
		env.bound["ch"] = ch
		// plain receives (no ok flag) may deliver the zero value of a closed channel: close() of channels whose
		// element type has plain receivers is checked against the invariant; comma-ok receives assume it under ok
		if x.CommaOk {
			fc.cur.assume(implies(okT, env.evalBool(inv)))
		} else {
			fc.cur.assume(env.evalBool(inv))
		}
	}
	if x.CommaOk {
		z := zeroVal(elemT)
		out := Val{T: x.Type()}
		for k := range v.L {
			out.L = append(out.L, ite(okT, v.L[k], z.L[k]))
		}
		out.L = append(out.L, okT)
		fc.setVal(x, out)
	} else {
		fc.setVal(x, v)
	}
	res := fc.vals[x]
	fc.anchorArgs = nil
	fc.anchorRes = &res
	fc.anchorAfter(anchor, x.Pos())
	fc.anchorRes = nil
}

// chanClose: closing a channel that carries an invariant requires the zero value to satisfy it
// (receivers assume the invariant of every received value, including the zero value of a closed channel).
const chanClosedName = "CH|closed"

var chanClosedSort = arraySort(SortRef, SortBool)

func (fc *FnCtx) chanOnce(class string) bool {
	return fc.c != nil && fc.c.ChanOnce[class]
}

func (fc *FnCtx) chanClose(ch Val, pos token.Pos) {
	call, ok := fc.curInstr.(ssa.CallInstruction)
	if !ok || len(call.Common().Args) == 0 {
		return
	}
	cv := call.Common().Args[0]
	if fc.probe {
		// the probe translation runs without the contract: every close counts as a write of the closed-state
		fc.recordWrite(chanClosedName)
	}
	inv, class := fc.chanInvFor(cv)
	if fc.chanOnce(class) {
		// close of a closed channel panics
		arr := fc.cur.get(chanClosedName, chanClosedSort)
		fc.oblige("chan-close", "twice!"+class, not(app("select", arr, ch.L[0])), pos, "close of a channel that may be closed already")
		fc.cur = fc.cur.derive()
		fc.cur.set(chanClosedName, chanClosedSort, app("store", arr, ch.L[0], "true"))
	}
	if inv == nil {
		return
	}
	ct := cv.Type().Underlying().(*types.Chan)
	if !fc.eng.plainRecvTypes[typeKey(ct.Elem())] {
		return
	}
	env := fc.anchorEnv()
	env.bound["m"] = zeroVal(ct.Elem())
	fc.oblige("chan-close", class, env.evalBool(inv), pos, "closing a channel whose invariant excludes the zero value")
}

func (fc *FnCtx) doSelect(x *ssa.Select) {
	// result: (index int, recvOk bool, r_0 T_0, ... r_n-1 T_n-1)
	tp := x.Type().(*types.Tuple)
	out := Val{T: tp}
	idx := fc.declareFresh("selidx", bvSort(64))
	lo := bvLit(0, 64)
	if !x.Blocking {
		lo = bvLit(^uint64(0), 64)
	}
	fc.cur.assume(and(app("bvsle", lo, idx), app("bvslt", idx, bvLit(uint64(len(x.States)), 64))))
	out.L = append(out.L, idx)
	out.L = append(out.L, fc.declareFresh("selok", SortBool))
	ri := 2
	for si, s := range x.States {
		if s.Dir == types.SendOnly {
			// a send: invariant obligation under the case being chosen
			inv, class := fc.chanInvFor(s.Chan)
			// a send case of a select is an anchor like a send statement (the assertion holds if the case is taken)
			fc.anchorArgs = []Val{fc.operand(s.Chan), fc.operand(s.Send)}
			fc.anchorBefore("send "+class, s.Pos)
			fc.anchorAfter("send "+class, s.Pos)
			if fc.chanNoDrop(class) && (len(x.States) > 1 || !x.Blocking) {
				fc.obligeAt(fc.cur, "chan-nodrop", class, "false", x.Pos(), "a message for channel "+class+" may be dropped: the send is one of several select cases or has a default")
			}
			if inv != nil {
				env := fc.anchorEnv()
				env.bound["m"] = fc.operand(s.Send)
				env.bound["ch"] = fc.operand(s.Chan)
				fc.obligeAt(fc.cur, "chan-send", class, implies(eq(idx, bvLit(uint64(si), 64)), env.evalBool(inv)), x.Pos(), "channel invariant of "+class)
			}
			continue
		}
		t := tp.At(ri).Type()
		v := fc.freshValWF("selrecv", t)
		inv, _ := fc.chanInvFor(s.Chan)
		if inv != nil {
			env := fc.anchorEnv()
			env.bound["m"] = v
			env.bound["ch"] = fc.operand(s.Chan)
			fc.cur.assume(implies(eq(idx, bvLit(uint64(si), 64)), env.evalBool(inv)))
		}
		out.L = append(out.L, v.L...)
		ri++
	}
	// a non-blocking select that takes its default branch found no case ready: a channel of a closeonce class it
	// tried to receive from is not closed (a closed channel is always ready), this function being its only closer
	if !x.Blocking {
		for _, s := range x.States {
			if s.Dir == types.RecvOnly && fc.chanOnce(fc.chanClass(s.Chan)) {
				arr := fc.cur.get(chanClosedName, chanClosedSort)
				fc.cur.assume(implies(eq(idx, bvLit(^uint64(0), 64)), not(app("select", arr, fc.operand(s.Chan).L[0]))))
			}
		}
	}
	fc.setVal(x, out)
	// anchor "select": argK is the channel of case K, ret0 the index of the case taken (-1: default), ret1 recvOk
	var chans []Val
	for _, s := range x.States {
		chans = append(chans, fc.operand(s.Chan))
	}
	fc.anchorArgs = chans
	fc.anchorBefore("select", x.Pos())
	fc.anchorRes = &out
	fc.anchorAfter("select", x.Pos())
	fc.anchorRes = nil
}

func (fc *FnCtx) doGo(x *ssa.Go) {
	cc := &x.Call
	var args []Val
	for _, a := range cc.Args {
		args = append(args, fc.operand(a))
	}
	var callee *ssa.Function
	var binds []Val
	switch v := cc.Value.(type) {
	case *ssa.Function:
		callee = v
	case *ssa.MakeClosure:
		callee = v.Fn.(*ssa.Function)
		for _, b := range v.Bindings {
			binds = append(binds, fc.operand(b))
		}
	}
	fc.noteTrusted("go statement: the spawned function is verified separately; its writes are havocked at the spawn point only")
	if callee == nil || cc.IsInvoke() {
		fc.havocAll()
		return
	}
	key := fc.eng.fnName(callee)
	fc.anchorBefore("go "+shortCallee(key), x.Pos())
	if c := fc.eng.contracts[key]; c != nil {
		env := &Env{fc: fc, pkg: callee.Pkg.Pkg, vars: map[string]Val{}, bound: map[string]Val{}, st: fc.cur, old: fc.cur}
		for i, p := range callee.Params {
			if i < len(args) {
				env.vars[p.Name()] = fc.coerce(args[i], p.Type())
			}
		}
		for i, fv := range callee.FreeVars {
			if i < len(binds) {
				env.vars["&"+fv.Name()] = binds[i]
			}
		}
		for i, r := range c.Requires {
			fc.oblige("pre", fmt.Sprintf("go!%s!r%d", shortCallee(key), i+1), env.evalBool(r), x.Pos(), "precondition of spawned "+key)
		}
	}
	fc.cur = fc.cur.havocked(fc.eng.summary(callee))
	fc.anchorAfter("go "+shortCallee(key), x.Pos())
}

func (fc *FnCtx) doDefer(x *ssa.Defer) {
	var args []Val
	for _, a := range x.Call.Args {
		args = append(args, fc.operand(a))
	}
	k := len(fc.defers)
	flag := fmt.Sprintf("defer|%d", k)
	fc.cur.set(flag, SortBool, "true")
	fc.defers = append(fc.defers, &deferRec{flag: flag, call: &x.Call, pos: x.Pos(), args: args})
	for _, li := range fc.loops {
		if li.body[x.Block()] {
			fc.unsup("defer inside a loop")
		}
	}
}

func (fc *FnCtx) doRunDefers(x *ssa.RunDefers) {
	for i := len(fc.defers) - 1; i >= 0; i-- {
		d := fc.defers[i]
		flag := fc.cur.get(d.flag, SortBool)
		if flag == "false" {
			continue
		}
		before := fc.cur
		run := before.derive()
		run.assume(flag)
		fc.cur = run
		fc.doCallWithArgs(d.call, d.args, d.pos)
		after := fc.cur
		skip := before.derive()
		skip.assume(not(flag))
		fc.cur = fc.mergeStates([]*State{after, skip}, []string{after.guard, skip.guard}, fc.nameGuard(or(after.guard, skip.guard)))
	}
}

// doCallWithArgs is doCall with pre-evaluated arguments (deferred calls).
func (fc *FnCtx) doCallWithArgs(cc *ssa.CallCommon, args []Val, pos token.Pos) Val {
	resT := callResultType(cc)
	if cc.IsInvoke() {
		return fc.doInvoke(cc, args, pos, resT)
	}
	switch callee := cc.Value.(type) {
	case *ssa.Builtin:
		return fc.doBuiltin(callee, cc, args, pos, resT)
	case *ssa.Function:
		return fc.callFunction(callee, args, nil, pos, resT)
	case *ssa.MakeClosure:
		var binds []Val
		for _, b := range callee.Bindings {
			binds = append(binds, fc.operand(b))
		}
		return fc.callFunction(callee.Fn.(*ssa.Function), args, binds, pos, resT)
	}
	if isCancelFunc(cc.Value) {
		fc.noteTrusted("context.CancelFunc: cancelling a context has no effect on the state modelled here")
		return fc.freshValWF("cancel", resT)
	}
	fc.havocAll()
	return fc.freshValWF("dyn", resT)
}

// ---------------------------------------------------------------------------
// locks: ghost lock state per mutex object

func (fc *FnCtx) lockOp(op string, mu Val, pos token.Pos) Val {
	// state: lock|w : Array Ref Bool (write-held), lock|r : Array Ref Bool (read-held) -- by this goroutine
	srt := arraySort(SortRef, SortBool)
	ref := mu.L[0]
	w := fc.cur.get("lock|w", srt)
	r := fc.cur.get("lock|r", srt)
	switch op {
	case "Lock":
		fc.cur.set("lock|w", srt, app("store", w, ref, "true"))
	case "Unlock":
		fc.cur.set("lock|w", srt, app("store", w, ref, "false"))
	case "RLock":
		fc.cur.set("lock|r", srt, app("store", r, ref, "true"))
	case "RUnlock":
		fc.cur.set("lock|r", srt, app("store", r, ref, "false"))
	}
	return Val{T: types.NewTuple()}
}

// ---------------------------------------------------------------------------
// errors

// errorsIs: e == t, or one of up to three unwrap steps equals t.
func (fc *FnCtx) errorsIs(e, t Val) string {
	fc.declareFunOnce("unw_tag", "("+SortTag+" (_ BitVec 64)) "+SortTag)
	fc.declareFunOnce("unw_pay", "("+SortTag+" (_ BitVec 64)) (_ BitVec 64)")
	same := func(tag, pay string) string { return and(eq(tag, t.L[0]), eq(pay, t.L[1])) }
	tag, pay := e.L[0], e.L[1]
	var alts []string
	nonnil := "true"
	for i := 0; i < 4; i++ {
		alts = append(alts, and(nonnil, not(eq(tag, bvLit(0, 16))), same(tag, pay)))
		nonnil = and(nonnil, not(eq(tag, bvLit(0, 16))))
		ntag, npay := app("unw_tag", tag, pay), app("unw_pay", tag, pay)
		tag, pay = ntag, npay
	}
	// errors.Is(nil, nil) is true
	alts = append(alts, and(eq(e.L[0], bvLit(0, 16)), eq(t.L[0], bvLit(0, 16))))
	return or(alts...)
}

// errorfWraps: fmt.Errorf with a %w verb wraps the corresponding argument.
func (fc *FnCtx) errorfWraps(r Val, args []Val) bool {
	call, ok := fc.curInstr.(*ssa.Call)
	if !ok || len(call.Call.Args) < 2 {
		return false
	}
	fmtc, ok := call.Call.Args[0].(*ssa.Const)
	if !ok || fmtc.Value == nil || fmtc.Value.Kind() != constant.String {
		return true // unknown format: may wrap anything
	}
	f := constant.StringVal(fmtc.Value)
	// index of the %w verb among verbs
	idx, verb := -1, 0
	for i := 0; i+1 < len(f); i++ {
		if f[i] != '%' {
			continue
		}
		if f[i+1] == '%' {
			i++
			continue
		}
		j := i + 1
		for j < len(f) && strings.ContainsRune("+-# 0123456789.", rune(f[j])) {
			j++
		}
		if j < len(f) && f[j] == 'w' {
			idx = verb
		}
		verb++
		i = j
	}
	if idx < 0 {
		return false
	}
	a := args[1] // []any
	et := a.T.Underlying().(*types.Slice).Elem()
	el := fc.loadFat(fc.cur, et, fatPtr{bvLit(1, 16), a.L[0], app("bvadd", a.L[1], bvLit(uint64(idx), 64))})
	fc.declareFunOnce("unw_tag", "("+SortTag+" (_ BitVec 64)) "+SortTag)
	fc.declareFunOnce("unw_pay", "("+SortTag+" (_ BitVec 64)) (_ BitVec 64)")
	fc.cur.assume(and(eq(app("unw_tag", r.L[0], r.L[1]), el.L[0]), eq(app("unw_pay", r.L[0], r.L[1]), el.L[1])))
	return true
}

func (fc *FnCtx) sameBytes(st *State, a, b Val) string {
	fc.hasQuant = true
	la, lb := fc.lenOf(a), fc.lenOf(b)
	i := qsym(fc.fresh("qs"))
	return and(eq(la, lb), fmt.Sprintf("(forall ((%s (_ BitVec 64))) (=> (bvult %s %s) (= %s %s)))", i, i, la, fc.byteAt(st, a, i), fc.byteAt(st, b, i)))
}

func (fc *FnCtx) lenOf(v Val) string {
	if isStringType(v.T) {
		return app("strlen", v.L[0])
	}
	return v.L[2]
}

// callSpecFunc: a call f(args) inside a contract expression, where f is an in-repo function under contract,
// stands for "some result allowed by f's contract": preconditions become obligations, postconditions are assumed.
func (env *Env) callSpecFunc(name string, args []ast.Expr) (Val, bool) {
	fc := env.fc
	key := env.pkg.Name() + "." + name
	callee := fc.eng.funcs[key]
	c := fc.eng.contracts[key]
	if callee == nil || c == nil {
		return Val{}, false
	}
	var avs []Val
	for i, a := range args {
		v := env.eval(a)
		if i < len(callee.Params) {
			v = env.typed(v, callee.Params[i].Type())
		}
		avs = append(avs, v)
	}
	saved := fc.cur
	sameState := env.st == fc.cur
	if env.st != fc.cur {
		// evaluate against the environment's state
		fc.cur = env.st
	}
	res := fc.applyContract(callee, c, avs, nil, token.NoPos, callResultTypeOf(callee), "true", shortCallee(key))
	env.st = fc.cur
	if sameState && !env.callSite && (c.IsFunction || c.Pure) && len(env.bound) == 0 {
		// a pure callee changes nothing: its postconditions are facts about the result term and stay in force for
		// whatever is proved next in this state (otherwise the obligation that contains the call would not see them)
		return res, true
	}
	if saved != nil && saved != env.st && !fc.lemmaMode {
		fc.cur = saved
	}
	return res, true
}

func callResultTypeOf(fn *ssa.Function) types.Type {
	res := fn.Signature.Results()
	switch res.Len() {
	case 0:
		return types.NewTuple()
	case 1:
		return res.At(0).Type()
	}
	return res
}

// e2ghostNames adds the state names of a ghost variable (at most 4 leaves; extra names are harmless).
func e2ghostNames(name string, ns *NameSet) {
	for k := 0; k < 4; k++ {
		ns.Add(fmt.Sprintf("ghost|%s|%d", name, k))
	}
}

func (fc *FnCtx) chanNoDrop(class string) bool {
	if fc.c != nil && fc.c.ChanNoDrop[class] {
		return true
	}
	return false
}
