package main

import (
	"context"
	"encoding/json"
	"fmt"
	"go/types"
	"os"
	"os/exec"
	"path/filepath"
	"regexp"
	"strconv"
	"strings"
	"time"

	"golang.org/x/tools/go/ssa"
)

// Replay R1 ("pure call"): the solver's model of a failed obligation is turned into a Go test that calls the real
// function with the model's arguments; the test is injected with `go test -overlay` (nothing is written into /repo).
// Supported parameter types: integers, bool, string, []byte, and pointers to structs whose fields are of these kinds.

const replayBytes = 256

type replayArg struct {
	goExpr string
	setup  []string
}

func replayableType(t types.Type) bool {
	switch u := t.Underlying().(type) {
	case *types.Basic:
		_, _, ok := intWidth(u)
		return ok || u.Kind() == types.Bool || u.Kind() == types.String
	case *types.Slice:
		b, ok := u.Elem().Underlying().(*types.Basic)
		return ok && b.Kind() == types.Uint8
	case *types.Pointer:
		st, ok := u.Elem().Underlying().(*types.Struct)
		if !ok {
			return false
		}
		for i := 0; i < st.NumFields(); i++ {
			ft := st.Field(i).Type()
			if _, isPtr := ft.Underlying().(*types.Pointer); isPtr {
				return false
			}
			if isInterface(ft) {
				continue // left nil
			}
			if _, isStruct := ft.Underlying().(*types.Struct); isStruct {
				continue // left zero
			}
			if _, isSlice := ft.Underlying().(*types.Slice); isSlice {
				if !replayableType(ft) {
					continue
				}
			}
			if _, isMap := ft.Underlying().(*types.Map); isMap {
				continue
			}
			if _, isChan := ft.Underlying().(*types.Chan); isChan {
				continue
			}
			if _, isSig := ft.Underlying().(*types.Signature); isSig {
				continue
			}
		}
		return true
	case *types.Struct:
		for i := 0; i < u.NumFields(); i++ {
			if !replayableType(u.Field(i).Type()) {
				return false
			}
		}
		return true
	}
	return false
}

var reValue = regexp.MustCompile(`\(\((.*) (#x[0-9a-fA-F]+|#b[01]+|true|false)\)\)`)

func parseBV(s string) (uint64, bool) {
	if strings.HasPrefix(s, "#x") {
		v, err := strconv.ParseUint(s[2:], 16, 64)
		return v, err == nil
	}
	if strings.HasPrefix(s, "#b") {
		v, err := strconv.ParseUint(s[2:], 2, 64)
		return v, err == nil
	}
	return 0, false
}

// queryValues runs the failing obligation again and asks for the values of the given terms.
func (o *Obligation) queryValues(terms []string, timeoutS int, extra ...string) (map[string]string, bool) {
	var b strings.Builder
	b.WriteString("(set-option :produce-models true)\n")
	b.WriteString(prelude)
	if o.Quant {
		b.WriteString(quantPrelude)
	}
	for _, d := range o.fc.decls[:o.NDecl] {
		b.WriteString(d)
		b.WriteByte('\n')
	}
	fmt.Fprintf(&b, "(assert %s)\n(assert (not %s))\n", o.Guard, o.Goal)
	for _, x := range extra {
		fmt.Fprintf(&b, "(assert %s)\n", x)
	}
	b.WriteString("(check-sat)\n")
	for _, t := range terms {
		fmt.Fprintf(&b, "(get-value (%s))\n", t)
	}
	text := b.String()
	if o.relaxed {
		text = relaxQuantifiers(text, 16)
	}
	r := runSolver(context.Background(), solvers[0], text, timeoutS)
	if r.Status != "sat" {
		return nil, false
	}
	out := map[string]string{}
	lines := strings.Split(r.Model, "\n")
	i := 0
	for _, ln := range lines {
		ln = strings.TrimSpace(ln)
		if ln == "" {
			continue
		}
		if i >= len(terms) {
			break
		}
		// ((term value))
		if idx := strings.LastIndex(ln, " "); idx > 0 && strings.HasSuffix(ln, "))") {
			out[terms[i]] = strings.TrimSuffix(ln[idx+1:], "))")
		}
		i++
	}
	return out, true
}

// tryReplay attempts to turn the solver's model into a run of the real code. Returns true if the failure reproduced.
func tryReplay(e *Engine, rep *FnReport, o *Obligation, ob *OblReport, verifDir string, content map[string]interface{}) bool {
	if o == nil || o.fc == nil || o.fc.fn == nil || e == nil {
		content["replay"] = "none: the solver produced no model (undecided obligation)"
		return false
	}
	if ob.Status != "failed" {
		// no model from the solver (quantified facts in the guard): search for a candidate input with the quantifiers
		// replaced by finitely many instances; only a run of the real code decides whether it is a counterexample
		o.relaxed = true
		content["candidate_search"] = "solver gave no model; candidate input from the query with quantifiers instantiated at 0..15 (decided only by running the real code)"
	}
	fn := o.fc.fn
	if fn.Parent() != nil {
		content["replay"] = "none: closures are not replayed by the pure-call harness"
		return false
	}
	switch o.Kind {
	case "bounds", "nil", "assert-type", "div", "panic", "shift", "alloc", "post":
	default:
		content["replay"] = "none: obligation kind " + o.Kind + " has no executable witness in the pure-call harness"
		return false
	}
	for _, p := range fn.Params {
		if !replayableType(p.Type()) {
			content["replay"] = fmt.Sprintf("none: parameter %s of type %s is outside the pure-call harness", p.Name(), p.Type())
			return false
		}
	}
	// 1. scalar leaves
	var terms []string
	for _, p := range fn.Params {
		terms = append(terms, o.fc.vals[p].L...)
	}
	entry := o.fc.entry
	byteArr := qsym(fmt.Sprintf("E|uint8|0@%d", entry.id))
	_, haveBytes := o.fc.declared[byteArr]
	addBytes := func(base, off string) {
		if !haveBytes {
			return
		}
		for i := 0; i < replayBytes; i++ {
			terms = append(terms, app("select", app("select", byteArr, base), app("bvadd", off, bvLit(uint64(i), 64))))
		}
	}
	addStr := func(s string) {
		terms = append(terms, app("strlen", s))
		for i := 0; i < replayBytes; i++ {
			terms = append(terms, app("strat", s, bvLit(uint64(i), 64)))
		}
	}
	type fieldTerm struct {
		param *ssa.Parameter
		field int
		leafs []string
	}
	var fieldTerms []fieldTerm
	for _, p := range fn.Params {
		v := o.fc.vals[p]
		switch u := p.Type().Underlying().(type) {
		case *types.Slice:
			addBytes(v.L[0], v.L[1])
		case *types.Basic:
			if u.Kind() == types.String {
				addStr(v.L[0])
			}
		case *types.Pointer:
			st := u.Elem().Underlying().(*types.Struct)
			for i := 0; i < st.NumFields(); i++ {
				ft := st.Field(i).Type()
				if !replayableType(ft) || ptrIsThin(ft) {
					continue
				}
				var leafs []string
				okAll := true
				for k, lf := range layout(ft) {
					arr := qsym(fmt.Sprintf("%s@%d", o.fc.fieldStateName(u.Elem(), i, k), entry.id))
					if _, ok := o.fc.declared[arr]; !ok {
						okAll = false
						break
					}
					_ = lf
					leafs = append(leafs, app("select", arr, v.L[0]))
				}
				if !okAll {
					continue
				}
				fieldTerms = append(fieldTerms, fieldTerm{p, i, leafs})
				terms = append(terms, leafs...)
				if _, isSlice := ft.Underlying().(*types.Slice); isSlice {
					addBytes(leafs[0], leafs[1])
				} else if isStringType(ft) {
					addStr(leafs[0])
				}
			}
		}
	}
	// prefer small witnesses: first ask for a model whose byte slices and strings fit the replay window
	var small []string
	for _, p := range fn.Params {
		v := o.fc.vals[p]
		switch u := p.Type().Underlying().(type) {
		case *types.Slice:
			small = append(small, app("bvule", v.L[2], bvLit(replayBytes, 64)))
		case *types.Basic:
			if u.Kind() == types.String {
				small = append(small, app("bvule", app("strlen", v.L[0]), bvLit(replayBytes, 64)))
			}
		}
	}
	for _, ftm := range fieldTerms {
		if len(ftm.leafs) == 4 {
			small = append(small, app("bvule", ftm.leafs[2], bvLit(replayBytes, 64)))
		}
	}
	vals, ok := o.queryValues(terms, 20, small...)
	if !ok {
		vals, ok = o.queryValues(terms, 20)
	}
	if !ok && !o.relaxed {
		o.relaxed = true
		content["candidate_search"] = "model extraction failed; candidate input from the query with quantifiers instantiated at 0..15 (decided only by running the real code)"
		vals, ok = o.queryValues(terms, 20, small...)
		if !ok {
			vals, ok = o.queryValues(terms, 20)
		}
	}
	if !ok {
		content["replay"] = "none: model extraction failed"
		return false
	}
	getU := func(t string) uint64 {
		v, _ := parseBV(vals[t])
		return v
	}
	bytesLit := func(base, off string, n uint64) string {
		if n > 1<<20 {
			n = 1 << 20
		}
		var sb strings.Builder
		sb.WriteString("[]byte{")
		lim := n
		if lim > replayBytes {
			lim = replayBytes
		}
		for i := uint64(0); i < lim; i++ {
			t := app("select", app("select", byteArr, base), app("bvadd", off, bvLit(i, 64)))
			fmt.Fprintf(&sb, "%d,", getU(t)&0xff)
		}
		sb.WriteString("}")
		if n > lim {
			return fmt.Sprintf("append(%s, make([]byte, %d)...)", sb.String(), n-lim)
		}
		return sb.String()
	}
	strLit := func(s string) string {
		n := getU(app("strlen", s))
		if n > 1<<16 {
			n = 1 << 16
		}
		bs := make([]byte, 0, n)
		for i := uint64(0); i < n; i++ {
			if i < replayBytes {
				bs = append(bs, byte(getU(app("strat", s, bvLit(i, 64)))))
			} else {
				bs = append(bs, 'x')
			}
		}
		return strconv.Quote(string(bs))
	}
	qual := func(t types.Type) string {
		return types.TypeString(t, func(p *types.Package) string {
			if p == fn.Pkg.Pkg {
				return ""
			}
			return p.Name()
		})
	}
	scalarLit := func(t types.Type, term string) string {
		if isBoolType(t) {
			return vals[term]
		}
		w, signed, _ := isIntType(t)
		u := getU(term)
		if signed {
			var sv int64
			switch w {
			case 8:
				sv = int64(int8(u))
			case 16:
				sv = int64(int16(u))
			case 32:
				sv = int64(int32(u))
			default:
				sv = int64(u)
			}
			return fmt.Sprintf("%s(%d)", qual(t), sv)
		}
		return fmt.Sprintf("%s(%d)", qual(t), u)
	}
	var setup []string
	var argExprs []string
	inputs := map[string]interface{}{}
	for _, p := range fn.Params {
		v := o.fc.vals[p]
		name := "a_" + p.Name()
		switch u := p.Type().Underlying().(type) {
		case *types.Slice:
			n := getU(v.L[2])
			if int64(n) < 0 {
				n = 0
			}
			lit := bytesLit(v.L[0], v.L[1], n)
			if getU(v.L[0]) == 0 {
				lit = "[]byte(nil)"
			}
			setup = append(setup, fmt.Sprintf("%s := %s", name, lit))
			inputs[p.Name()] = lit
		case *types.Basic:
			if u.Kind() == types.String {
				lit := strLit(v.L[0])
				setup = append(setup, fmt.Sprintf("%s := %s(%s)", name, qual(p.Type()), lit))
				inputs[p.Name()] = lit
			} else {
				lit := scalarLit(p.Type(), v.L[0])
				setup = append(setup, fmt.Sprintf("%s := %s", name, lit))
				inputs[p.Name()] = lit
			}
		case *types.Pointer:
			setup = append(setup, fmt.Sprintf("%s := new(%s)", name, qual(u.Elem())))
			st := u.Elem().Underlying().(*types.Struct)
			for _, ftm := range fieldTerms {
				if ftm.param != p {
					continue
				}
				ft := st.Field(ftm.field).Type()
				fname := st.Field(ftm.field).Name()
				var lit string
				switch {
				case isStringType(ft):
					lit = fmt.Sprintf("%s(%s)", qual(ft), strLit(ftm.leafs[0]))
				case len(ftm.leafs) == 4:
					n := getU(ftm.leafs[2])
					lit = bytesLit(ftm.leafs[0], ftm.leafs[1], n)
				default:
					lit = scalarLit(ft, ftm.leafs[0])
				}
				setup = append(setup, fmt.Sprintf("%s.%s = %s", name, fname, lit))
				inputs[p.Name()+"."+fname] = lit
			}
		case *types.Struct:
			content["replay"] = "none: struct-valued parameter"
			return false
		}
		argExprs = append(argExprs, name)
	}
	// call expression
	var call string
	if fn.Signature.Recv() != nil {
		call = fmt.Sprintf("%s.%s(%s)", argExprs[0], fn.Name(), strings.Join(argExprs[1:], ", "))
	} else {
		call = fmt.Sprintf("%s(%s)", fn.Name(), strings.Join(argExprs, ", "))
	}
	nres := fn.Signature.Results().Len()
	var lhs []string
	for i := 0; i < nres; i++ {
		lhs = append(lhs, fmt.Sprintf("r%d", i))
	}
	assign := call
	if nres > 0 {
		assign = strings.Join(lhs, ", ") + " := " + call
	}
	var check string
	switch o.Kind {
	case "alloc":
		bound := ""
		if o.fc.c != nil && o.fc.c.AllocBound != nil {
			bound = types.ExprString(o.fc.c.AllocBound)
		}
		for _, p := range fn.Params {
			bound = regexp.MustCompile(`\b`+regexp.QuoteMeta(p.Name())+`\b`).ReplaceAllString(bound, "a_"+p.Name())
		}
		if strings.Contains(bound, "old(") {
			content["replay"] = "none: allocation bound mentions old()"
			return false
		}
		check = fmt.Sprintf(`	bound := uint64(%s)
	var m0, m1 runtime.MemStats
	runtime.GC()
	runtime.ReadMemStats(&m0)
	%s
	runtime.ReadMemStats(&m1)
	%s
	if d := m1.TotalAlloc - m0.TotalAlloc; d > bound+4096 {
		t.Fatalf("GOVC-REPLAY: REPRODUCED: allocated %%d bytes, declared bound %%d", d, bound)
	}
	t.Logf("GOVC-REPLAY: not reproduced")
`, bound, assign, useAll(lhs))
	case "post":
		cond := postToGo(o, fn)
		if cond == "" {
			content["replay"] = "none: the failed postcondition is not executable (ghost state, old(), quantifier or type predicate)"
			return false
		}
		check = fmt.Sprintf(`	%s
	%s
	if !(%s) {
		t.Fatalf("GOVC-REPLAY: REPRODUCED: postcondition violated: results %%v", []interface{}{%s})
	}
	t.Logf("GOVC-REPLAY: not reproduced")
`, assign, useAll(lhs), cond, strings.Join(lhs, ", "))
	default:
		check = fmt.Sprintf(`	%s
	%s
	t.Logf("GOVC-REPLAY: not reproduced (no panic)")
`, assign, useAll(lhs))
	}
	pkgName := fn.Pkg.Pkg.Name()
	body := strings.Join(setup, "\n") + check
	extra := ""
	for name, path := range map[string]string{"os": "os", "io": "io", "syscall": "syscall", "fs": "io/fs", "errors": "errors", "time": "time", "sshfx": "github.com/pkg/sftp/internal/encoding/ssh/filexfer"} {
		if regexp.MustCompile(`\b` + name + `\.`).MatchString(body) && name != pkgName {
			if name == "sshfx" {
				extra += "\tsshfx \"" + path + "\"\n"
			} else {
				extra += "\t\"" + path + "\"\n"
			}
		}
	}
	imports := "import (\n\t\"runtime\"\n\t\"testing\"\n" + extra + ")\n"
	src := fmt.Sprintf(`package %s

%s
var _ = runtime.GC

func iteReplay[T any](c bool, a, b T) T {
	if c {
		return a
	}
	return b
}

func be32Replay(b []byte, i int) uint32 {
	return uint32(b[i])<<24 | uint32(b[i+1])<<16 | uint32(b[i+2])<<8 | uint32(b[i+3])
}

// generated by govc from the solver's counterexample for obligation %s
func TestGovcReplay(t *testing.T) {
	defer func() {
		if r := recover(); r != nil {
			t.Fatalf("GOVC-REPLAY: REPRODUCED: panic: %%v", r)
		}
	}()
	%s
%s}
`, pkgName, imports, o.Name, strings.Join(setup, "\n\t"), check)
	// run it through an overlay
	dir, err := os.MkdirTemp("", "govc-replay-")
	if err != nil {
		content["replay"] = "none: " + err.Error()
		return false
	}
	defer os.RemoveAll(dir)
	pkgDir := filepath.Dir(e.fset.Position(fn.Pos()).Filename)
	testFile := filepath.Join(dir, "zz_govc_replay_test.go")
	_ = os.WriteFile(testFile, []byte(src), 0o644)
	ov := map[string]map[string]string{"Replace": {filepath.Join(pkgDir, "zz_govc_replay_test.go"): testFile}}
	ovData, _ := json.Marshal(ov)
	ovFile := filepath.Join(dir, "overlay.json")
	_ = os.WriteFile(ovFile, ovData, 0o644)
	ctx, cancel := context.WithTimeout(context.Background(), 120*time.Second)
	defer cancel()
	cmd := exec.CommandContext(ctx, "sh", "-c", fmt.Sprintf("ulimit -v 8000000; cd %s && go test -overlay %s -vet=off -count=1 -timeout 60s -run '^TestGovcReplay$' .", pkgDir, ovFile))
	cmd.Env = append(os.Environ(), "GOFLAGS=-mod=mod", "GOPROXY=off")
	outB, _ := cmd.CombinedOutput()
	out := string(outB)
	content["replay"] = map[string]interface{}{
		"harness": "R1 pure call through go test -overlay (nothing written to /repo)",
		"inputs":  inputs, "test_source": src, "output": truncate(out, 6000),
	}
	if strings.Contains(out, "GOVC-REPLAY: REPRODUCED") || strings.Contains(out, "fatal error:") || strings.Contains(out, "cannot allocate memory") {
		content["replay_outcome"] = "reproduced on the real code"
		return true
	}
	content["replay_outcome"] = "not reproduced by the pure-call harness"
	return false
}

func useAll(names []string) string {
	if len(names) == 0 {
		return ""
	}
	var parts []string
	for _, n := range names {
		parts = append(parts, "_ = "+n)
	}
	return strings.Join(parts, "; ")
}

// postToGo turns the failed ensures clause into a Go boolean expression over the replay variables, when possible.
func postToGo(o *Obligation, fn *ssa.Function) string {
	c := o.fc.c
	if c == nil {
		return ""
	}
	// obligation name ...#post:eK!retN@M
	m := regexp.MustCompile(`#post:e(\d+)!`).FindStringSubmatch(o.Name)
	if m == nil {
		return ""
	}
	k, _ := strconv.Atoi(m[1])
	if k < 1 || k > len(c.EnsuresSrc) {
		return ""
	}
	src := c.EnsuresSrc[k-1]
	for _, bad := range []string{"old(", "forall", "exists", "typeis", "ghost.", "isErr", "haskey", "samearray", ".("} {
		if strings.Contains(src, bad) {
			return ""
		}
	}
	// only calls allowed: len, cap, be32, conversions
	if regexp.MustCompile(`\b[a-z][A-Za-z0-9]*OK\(`).MatchString(src) {
		return ""
	}
	expr := src
	// implications: split at the top level (right associative)
	var conv func(s string) string
	conv = func(s string) string {
		depth := 0
		for i := 0; i+4 <= len(s); i++ {
			switch s[i] {
			case '(':
				depth++
			case ')':
				depth--
			}
			if depth == 0 && strings.HasPrefix(s[i:], "<==>") {
				return "((" + conv(s[:i]) + ") == (" + conv(s[i+4:]) + "))"
			}
		}
		depth = 0
		for i := 0; i+3 <= len(s); i++ {
			switch s[i] {
			case '(':
				depth++
			case ')':
				depth--
			}
			if depth == 0 && strings.HasPrefix(s[i:], "==>") && (i == 0 || s[i-1] != '<') {
				return "(!(" + conv(s[:i]) + ") || (" + conv(s[i+3:]) + "))"
			}
		}
		return s
	}
	if strings.Contains(expr, "==>") && strings.Count(expr, "(") != strings.Count(expr, ")") {
		return ""
	}
	// implications nested inside parentheses are not handled
	stripped := regexp.MustCompile(`\([^()]*\)`).ReplaceAllString(expr, "")
	_ = stripped
	expr = conv(expr)
	if strings.Contains(expr, "==>") {
		return ""
	}
	names := o.fc.resultNames()
	for i, n := range names {
		if n != "" {
			expr = regexp.MustCompile(`\b`+regexp.QuoteMeta(n)+`\b`).ReplaceAllString(expr, fmt.Sprintf("r%d", i))
		}
	}
	if fn.Signature.Results().Len() == 1 {
		expr = regexp.MustCompile(`\bresult\b`).ReplaceAllString(expr, "r0")
	}
	for i := 0; i < fn.Signature.Results().Len(); i++ {
		expr = regexp.MustCompile(fmt.Sprintf(`\bresult%d\b`, i)).ReplaceAllString(expr, fmt.Sprintf("r%d", i))
	}
	for _, p := range fn.Params {
		expr = regexp.MustCompile(`\b`+regexp.QuoteMeta(p.Name())+`\b`).ReplaceAllString(expr, "a_"+p.Name())
	}
	expr = regexp.MustCompile(`\bbe32\(`).ReplaceAllString(expr, "be32Replay(")
	expr = regexp.MustCompile(`\bite\(`).ReplaceAllString(expr, "iteReplay(")
	return expr
}
