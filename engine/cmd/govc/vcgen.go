package main

import (
	"os"
	"fmt"
	"go/constant"
	"go/token"
	"go/types"
	"sort"
	"strings"

	"golang.org/x/tools/go/ssa"
)

const maxCapLit = "#x0000800000000000" // 2^47

// Obligation is one proof goal: decls[:NDecl] /\ Guard /\ not Goal must be unsat.
type Obligation struct {
	Name   string
	Kind   string
	Fn     string
	Pos    string
	NDecl  int
	Guard  string
	Goal   string
	Descr  string
	Quant  bool
	relaxed bool // replay only: candidate search with instantiated quantifiers
	fc     *FnCtx
	Result *SolveResult
	// cover obligations succeed on sat
	Cover bool
}

// FnCtx translates one SSA function.
type FnCtx struct {
	eng  *Engine
	fn   *ssa.Function
	c    *Contract
	name string
	pkg  *types.Package
	lemmaMode bool

	decls     []string
	declared  map[string]string
	stateSort map[string]string
	ctr       int
	stateCtr  int
	guardCtr  int
	allocCtr  int

	vals     map[ssa.Value]Val
	entry    *State // old state
	endState map[*ssa.BasicBlock]*State
	cur      *State

	obls        []*Obligation
	ordinals    map[string]int
	unsupported []string
	trustedUsed map[string]bool

	loops      map[*ssa.BasicBlock]*loopInfo // by header
	backEdge   map[[2]int]bool
	debugNames map[string][]debugBinding
	strConsts  map[string]string
	retCount   int
	results    []Val // set while evaluating a post at a return
	ghostDecl  map[string]types.Type
	defers     []*deferRec
	curInstr   ssa.Instruction

	noRecord    bool
	freshSet    map[string]bool
	specDepth   int
	appendNewRef string
	contractVars map[string]Val
	anchorArgs  []Val
	anchorRes   *Val
	anchorLog   []anchorKey
	bytesOfBases []string // scratch: bases named by "bytesof" items of the modifies clause being applied
	anchorsHit  map[*AnchorClause]bool
	anchorsSeen map[string]bool
	probe       bool
	blockWrites map[int]*NameSet
	blockWritesAll map[int]*NameSet
	curBlock    int
	sentinels   []Val
	inlineDepth int
	anchorOrd   map[string]int
	specMode    bool
	hasQuant    bool
}

func (fc *FnCtx) recordWrite(name string) {
	if fc.blockWritesAll != nil {
		// loop write sets need every write, including those to objects allocated by this function
		// (an object allocated before a loop and written inside it carries state across iterations)
		ns := fc.blockWritesAll[fc.curBlock]
		if ns == nil {
			ns = newNameSet()
			fc.blockWritesAll[fc.curBlock] = ns
		}
		ns.Add(name)
	}
	if fc.blockWrites == nil || fc.noRecord {
		return
	}
	ns := fc.blockWrites[fc.curBlock]
	if ns == nil {
		ns = newNameSet()
		fc.blockWrites[fc.curBlock] = ns
	}
	ns.Add(name)
}

func (fc *FnCtx) recordWrites(hs *NameSet) {
	if fc.blockWritesAll != nil && hs != nil {
		ns := fc.blockWritesAll[fc.curBlock]
		if ns == nil {
			ns = newNameSet()
			fc.blockWritesAll[fc.curBlock] = ns
		}
		ns.AddAll(hs)
	}
	if fc.blockWrites == nil || hs == nil {
		return
	}
	ns := fc.blockWrites[fc.curBlock]
	if ns == nil {
		ns = newNameSet()
		fc.blockWrites[fc.curBlock] = ns
	}
	ns.AddAll(hs)
}

type deferRec struct {
	flag string // state var name (Bool) telling whether registered
	call *ssa.CallCommon
	pos  token.Pos
	args []Val
}

type debugBinding struct {
	name   string
	val    ssa.Value
	isAddr bool
	block  *ssa.BasicBlock
	idx    int
}

type loopInfo struct {
	header *ssa.BasicBlock
	body   map[*ssa.BasicBlock]bool
	ord    int // 1-based ordinal in source order
	writes *NameSet
	// filled during translation
	phiFresh map[*ssa.Phi]Val
	hstate   *State
	headCtr  int // allocation counter when the header was reached
}

func (fc *FnCtx) fresh(prefix string) string {
	fc.ctr++
	return fmt.Sprintf("%s!%d", prefix, fc.ctr)
}

func (fc *FnCtx) declare(name, sortStr string) string {
	q := qsym(name)
	if s, ok := fc.declared[q]; ok {
		if s != sortStr {
			panic(fmt.Sprintf("redeclare %s: %s vs %s", q, s, sortStr))
		}
		return q
	}
	fc.declared[q] = sortStr
	fc.decls = append(fc.decls, fmt.Sprintf("(declare-const %s %s)", q, sortStr))
	return q
}

func (fc *FnCtx) declareFresh(prefix, sortStr string) string {
	return fc.declare(fc.fresh(prefix), sortStr)
}

func (fc *FnCtx) define(name, sortStr, term string) string {
	q := qsym(name)
	if _, ok := fc.declared[q]; ok {
		q = qsym(fc.fresh(name))
	}
	fc.declared[q] = sortStr
	fc.decls = append(fc.decls, fmt.Sprintf("(define-fun %s () %s %s)", q, sortStr, term))
	return q
}

func (fc *FnCtx) axiom(term string) {
	if term == "true" {
		return
	}
	fc.decls = append(fc.decls, "(assert "+term+")")
}

func (fc *FnCtx) noteStateSort(name, sortStr string) {
	if s, ok := fc.stateSort[name]; ok && s != sortStr {
		panic(fmt.Sprintf("state sort clash %s: %s vs %s", name, s, sortStr))
	}
	fc.stateSort[name] = sortStr
}

func (fc *FnCtx) nameGuard(term string) string {
	if len(term) < 40 {
		return term
	}
	fc.guardCtr++
	return fc.define(fmt.Sprintf("g!%d", fc.guardCtr), SortBool, term)
}

func (fc *FnCtx) unsup(what string) {
	fc.unsupported = append(fc.unsupported, what)
}

func (fc *FnCtx) posOf(p token.Pos) string {
	if !p.IsValid() {
		return ""
	}
	pp := fc.eng.fset.Position(p)
	return fmt.Sprintf("%s:%d", shortFile(pp.Filename), pp.Line)
}

func shortFile(f string) string {
	return strings.TrimPrefix(f, "/repo/")
}

func (fc *FnCtx) ordinal(key string) int {
	fc.ordinals[key]++
	return fc.ordinals[key]
}

// oblige adds a proof obligation under the current guard and then assumes the goal.
func (fc *FnCtx) oblige(kind, detail, goal string, pos token.Pos, descr string) {
	fc.obligeAt(fc.cur, kind, detail, goal, pos, descr)
	fc.cur.assume(goal)
}

func (fc *FnCtx) obligeAt(st *State, kind, detail, goal string, pos token.Pos, descr string) {
	key := kind + ":" + detail
	n := fc.ordinal(key)
	name := fmt.Sprintf("%s#%s@%d", fc.name, key, n)
	if goal == "true" {
		// trivially discharged; still counted so that obligation names are stable
		goal = "true"
	}
	fc.obls = append(fc.obls, &Obligation{
		Name: name, Kind: kind, Fn: fc.name, Pos: fc.posOf(pos),
		NDecl: len(fc.decls), Guard: st.guard, Goal: goal, Descr: descr, fc: fc, Quant: fc.hasQuant,
	})
}

func (fc *FnCtx) cover(detail string, st *State, pos token.Pos) {
	name := fmt.Sprintf("%s#cover:%s", fc.name, detail)
	fc.obls = append(fc.obls, &Obligation{
		Name: name, Kind: "cover", Fn: fc.name, Pos: fc.posOf(pos),
		NDecl: len(fc.decls), Guard: st.guard, Goal: "false", fc: fc, Cover: true,
	})
}

// ---------------------------------------------------------------------------
// heap access

func (fc *FnCtx) fieldStateName(st types.Type, field, leaf int) string {
	return fmt.Sprintf("H|%s|%d|%d", typeKey(st), field, leaf)
}

func arraySort(idx, elem string) string { return "(Array " + idx + " " + elem + ")" }

// subRef returns the address of nested-by-value struct/array field (st, field) inside object ref.
func (fc *FnCtx) subRef(st types.Type, field int, ref string) string {
	k := fc.eng.fieldID(st, field)
	t := app("sub", bvLit(uint64(k), 16), ref)
	return t
}

func (fc *FnCtx) eltRef(base, idx string) string {
	return app("elt", base, idx)
}

// loadStruct reads all leaves of a struct of type t stored at ref.
func (fc *FnCtx) loadAt(st *State, t types.Type, ref string) Val {
	out := Val{T: t}
	switch u := t.Underlying().(type) {
	case *types.Struct:
		for i := 0; i < u.NumFields(); i++ {
			ft := u.Field(i).Type()
			if ptrIsThin(ft) {
				out.L = append(out.L, fc.loadAt(st, ft, fc.subRef(t, i, ref)).L...)
				continue
			}
			for k, lf := range layout(ft) {
				arr := st.get(fc.fieldStateName(t, i, k), arraySort(SortRef, lf.Sort))
				out.L = append(out.L, app("select", arr, ref))
			}
		}
	case *types.Array:
		// array value = snapshot reference; we simply alias the object (arrays are
		// only read through such values in the code under contract)
		out.L = []string{ref}
	default:
		panic("loadAt: not an object type " + t.String())
	}
	return out
}

func (fc *FnCtx) isFreshRef(ref string) bool {
	return strings.HasPrefix(ref, "|alloc!") || fc.freshSet[ref]
}

func (fc *FnCtx) storeAt(st *State, t types.Type, ref string, v Val) {
	if fc.isFreshRef(ref) && !fc.noRecord {
		fc.noRecord = true
		defer func() { fc.noRecord = false }()
	}
	switch u := t.Underlying().(type) {
	case *types.Struct:
		off := 0
		for i := 0; i < u.NumFields(); i++ {
			ft := u.Field(i).Type()
			n := nLeaves(ft)
			if ptrIsThin(ft) {
				fc.storeAt(st, ft, fc.subRef(t, i, ref), Val{T: ft, L: v.L[off : off+n]})
			} else {
				for k, lf := range layout(ft) {
					name := fc.fieldStateName(t, i, k)
					srt := arraySort(SortRef, lf.Sort)
					st.set(name, srt, app("store", st.get(name, srt), ref, v.L[off+k]))
				}
			}
			off += n
		}
	case *types.Array:
		// copy element storage from the snapshot v.L[0] to ref
		et := u.Elem()
		if ptrIsThin(et) {
			fc.unsup("array of structs store")
			return
		}
		for k, lf := range layout(et) {
			name := fmt.Sprintf("E|%s|%d", typeKey(et), k)
			srt := arraySort(SortRef, arraySort(bvSort(64), lf.Sort))
			cur := st.get(name, srt)
			st.set(name, srt, app("store", cur, ref, app("select", cur, v.L[0])))
		}
	default:
		panic("storeAt: not an object type " + t.String())
	}
}

// storeNamesOfType adds the state names written by storing a whole value of object type t.
func (fc *FnCtx) objectNames(t types.Type, ns *NameSet) { fc.eng.objectNames(t, ns) }

func (e *Engine) objectNames(t types.Type, ns *NameSet) {
	switch u := t.Underlying().(type) {
	case *types.Struct:
		for i := 0; i < u.NumFields(); i++ {
			ft := u.Field(i).Type()
			if ptrIsThin(ft) {
				e.objectNames(ft, ns)
				continue
			}
			for k := range layout(ft) {
				ns.Add(fmt.Sprintf("H|%s|%d|%d", typeKey(t), i, k))
			}
		}
	case *types.Array:
		et := u.Elem()
		if ptrIsThin(et) {
			e.objectNames(et, ns)
			return
		}
		for k := range layout(et) {
			ns.Add(fmt.Sprintf("E|%s|%d", typeKey(et), k))
		}
	}
}

// fat pointer access -------------------------------------------------------

type fatPtr struct{ fid, ref, idx string }

func fatOf(v Val) fatPtr { return fatPtr{v.L[0], v.L[1], v.L[2]} }

func (fc *FnCtx) fatCandidates(elem types.Type) []escField {
	return fc.eng.escFields[typeKey(elem)]
}

func litFid(term string) (int, bool) {
	var k int
	if strings.HasPrefix(term, "#x") && len(term) == 6 {
		if _, err := fmt.Sscanf(term[2:], "%x", &k); err == nil {
			return k, true
		}
	}
	return 0, false
}

func (fc *FnCtx) loadFat(st *State, elem types.Type, p fatPtr) Val {
	ls := layout(elem)
	out := Val{T: elem, L: make([]string, len(ls))}
	for k, lf := range ls {
		cell := func() string {
			arr := st.get(fmt.Sprintf("C|%s|%d", typeKey(elem), k), arraySort(SortRef, lf.Sort))
			return app("select", arr, p.ref)
		}
		elt := func() string {
			arr := st.get(fmt.Sprintf("E|%s|%d", typeKey(elem), k), arraySort(SortRef, arraySort(bvSort(64), lf.Sort)))
			return app("select", app("select", arr, p.ref), p.idx)
		}
		fld := func(f escField) string {
			arr := st.get(fc.fieldStateName(f.st, f.field, k), arraySort(SortRef, lf.Sort))
			return app("select", arr, p.ref)
		}
		if lit, ok := litFid(p.fid); ok {
			switch lit {
			case 0:
				out.L[k] = cell()
			case 1:
				out.L[k] = elt()
			default:
				f := fc.eng.fieldByID[lit]
				out.L[k] = fld(f)
			}
			continue
		}
		t := cell()
		t = ite(eq(p.fid, bvLit(1, 16)), elt(), t)
		for _, f := range fc.fatCandidates(elem) {
			t = ite(eq(p.fid, bvLit(uint64(f.id), 16)), fld(f), t)
		}
		out.L[k] = t
	}
	return out
}

func (fc *FnCtx) storeFat(st *State, elem types.Type, p fatPtr, v Val) {
	if fc.isFreshRef(p.ref) && !fc.noRecord {
		if _, ok := litFid(p.fid); ok {
			fc.noRecord = true
			defer func() { fc.noRecord = false }()
		}
	}
	for k, lf := range layout(elem) {
		cellName := fmt.Sprintf("C|%s|%d", typeKey(elem), k)
		cellSort := arraySort(SortRef, lf.Sort)
		eltName := fmt.Sprintf("E|%s|%d", typeKey(elem), k)
		eltSort := arraySort(SortRef, arraySort(bvSort(64), lf.Sort))
		storeElt := func() string {
			arr := st.get(eltName, eltSort)
			return app("store", arr, p.ref, app("store", app("select", arr, p.ref), p.idx, v.L[k]))
		}
		if lit, ok := litFid(p.fid); ok {
			switch lit {
			case 0:
				st.set(cellName, cellSort, app("store", st.get(cellName, cellSort), p.ref, v.L[k]))
			case 1:
				st.set(eltName, eltSort, storeElt())
			default:
				f := fc.eng.fieldByID[lit]
				name := fc.fieldStateName(f.st, f.field, k)
				st.set(name, cellSort, app("store", st.get(name, cellSort), p.ref, v.L[k]))
			}
			continue
		}
		// unknown target: conditional update of every candidate
		handled := []string{eq(p.fid, bvLit(1, 16))}
		st.set(eltName, eltSort, ite(eq(p.fid, bvLit(1, 16)), storeElt(), st.get(eltName, eltSort)))
		for _, f := range fc.fatCandidates(elem) {
			name := fc.fieldStateName(f.st, f.field, k)
			c := eq(p.fid, bvLit(uint64(f.id), 16))
			handled = append(handled, c)
			st.set(name, cellSort, ite(c, app("store", st.get(name, cellSort), p.ref, v.L[k]), st.get(name, cellSort)))
		}
		st.set(cellName, cellSort, ite(or(handled...), st.get(cellName, cellSort), app("store", st.get(cellName, cellSort), p.ref, v.L[k])))
	}
}

func (e *Engine) fatStoreNames(elem types.Type, ns *NameSet) {
	for k := range layout(elem) {
		ns.Add(fmt.Sprintf("C|%s|%d", typeKey(elem), k))
		ns.Add(fmt.Sprintf("E|%s|%d", typeKey(elem), k))
		for _, f := range e.escFields[typeKey(elem)] {
			ns.Add(fmt.Sprintf("H|%s|%d|%d", typeKey(f.st), f.field, k))
		}
	}
}

// loadPtr / storePtr on an arbitrary pointer value
func (fc *FnCtx) loadPtr(st *State, ptr Val) Val {
	elem := ptr.T.Underlying().(*types.Pointer).Elem()
	var v Val
	if ptrIsThin(elem) {
		v = fc.loadAt(st, elem, ptr.L[0])
	} else {
		v = fc.loadFat(st, elem, fatOf(ptr))
	}
	return v
}

func (fc *FnCtx) storePtr(st *State, ptr Val, v Val) {
	elem := ptr.T.Underlying().(*types.Pointer).Elem()
	if ptrIsThin(elem) {
		fc.storeAt(st, elem, ptr.L[0], v)
	} else {
		fc.storeFat(st, elem, fatOf(ptr), v)
	}
}

func ptrNonNil(ptr Val) string {
	elem := ptr.T.Underlying().(*types.Pointer).Elem()
	if ptrIsThin(elem) {
		return not(eq(ptr.L[0], bvLit(0, 64)))
	}
	return not(eq(ptr.L[1], bvLit(0, 64)))
}

// ---------------------------------------------------------------------------
// well-formedness facts of a value (slice headers, string lengths)

func (fc *FnCtx) wfFacts(v Val) string {
	var facts []string
	fc.wfInto(v.T, v.L, &facts)
	return and(facts...)
}

func (fc *FnCtx) wfInto(t types.Type, L []string, facts *[]string) {
	switch u := t.Underlying().(type) {
	case *types.Slice:
		base, off, ln, cp := L[0], L[1], L[2], L[3]
		*facts = append(*facts,
			app("bvsle", bvLit(0, 64), ln), app("bvsle", ln, cp), app("bvsle", cp, maxCapLit), app("bvule", off, maxCapLit),
			implies(eq(base, bvLit(0, 64)), and(eq(cp, bvLit(0, 64)), eq(off, bvLit(0, 64)))))
	case *types.Basic:
		if isStringType(t) {
			*facts = append(*facts, fc.strWF(L[0]))
		}
	case *types.Struct:
		off := 0
		for i := 0; i < u.NumFields(); i++ {
			n := nLeaves(u.Field(i).Type())
			fc.wfInto(u.Field(i).Type(), L[off:off+n], facts)
			off += n
		}
	case *types.Tuple:
		off := 0
		for i := 0; i < u.Len(); i++ {
			n := nLeaves(u.At(i).Type())
			fc.wfInto(u.At(i).Type(), L[off:off+n], facts)
			off += n
		}
	case *types.Interface:
		// nil interface has zero payload
		*facts = append(*facts, implies(eq(L[0], bvLit(0, 16)), eq(L[1], bvLit(0, 64))))
		// data invariant: no nil in-repo pointer inside an interface
		*facts = append(*facts, implies(fc.isRepoPtrTag(L[0]), not(eq(L[1], bvLit(0, 64)))))
		// an interface with unexported methods can only hold types of this repository
		if fc.eng.sealedIface(u) && fc.eng.isRepoIface(t) {
			*facts = append(*facts, fc.sealedTagFact(t, u, L[0]))
		}
	case *types.Pointer:
		if !ptrIsThin(u.Elem()) {
			// a nil fat pointer is all zero
			*facts = append(*facts, implies(eq(L[1], bvLit(0, 64)), and(eq(L[0], bvLit(0, 16)), eq(L[2], bvLit(0, 64)))))
		}
	}
}

func (fc *FnCtx) strWF(s string) string {
	if strings.HasPrefix(s, "|strc!") || s == "str_empty" {
		return "true"
	}
	l := app("strlen", s)
	return and(app("bvsle", bvLit(0, 64), l), app("bvsle", l, maxCapLit))
}

func (fc *FnCtx) freshVal(prefix string, t types.Type) Val {
	ls := layout(t)
	v := Val{T: t, L: make([]string, len(ls))}
	base := fc.fresh(prefix)
	for i, l := range ls {
		v.L[i] = fc.declare(fmt.Sprintf("%s%s", base, l.Name), l.Sort)
	}
	return v
}

func (fc *FnCtx) freshValWF(prefix string, t types.Type) Val {
	v := fc.freshVal(prefix, t)
	fc.cur.assume(fc.wfFacts(v))
	return v
}

// allocRef returns a fresh object reference.
func (fc *FnCtx) allocRef() string {
	fc.allocCtr++
	r := app("bvadd", "allocbase", bvLit(uint64(fc.allocCtr)*16, 64))
	r = fc.define(fmt.Sprintf("alloc!%d", fc.allocCtr), SortRef, r)
	fc.axiom(eq(app("sub_fid", r), bvLit(0, 16)))
	return r
}

// ---------------------------------------------------------------------------
// string constants

func (fc *FnCtx) strConst(s string) string {
	if s == "" {
		return "str_empty"
	}
	if t, ok := fc.strConsts[s]; ok {
		return t
	}
	name := fmt.Sprintf("strc!%d!%s", len(fc.strConsts), strings.Map(func(r rune) rune {
		if r >= 'a' && r <= 'z' || r >= 'A' && r <= 'Z' || r >= '0' && r <= '9' || r == '.' || r == '-' || r == '@' || r == '_' {
			return r
		}
		return '_'
	}, truncate(s, 40)))
	t := fc.declare(name, SortStr)
	fc.axiom(eq(app("strlen", t), bvLit(uint64(len(s)), 64)))
	// distinct from every earlier constant
	for _, o := range fc.strConsts {
		fc.axiom(not(eq(t, o)))
	}
	fc.axiom(not(eq(t, "str_empty")))
	if len(s) <= 64 {
		for i := 0; i < len(s); i++ {
			fc.axiom(eq(app("strat", t, bvLit(uint64(i), 64)), bvLit(uint64(s[i]), 8)))
		}
	}
	fc.strConsts[s] = t
	return t
}

func truncate(s string, n int) string {
	if len(s) > n {
		return s[:n]
	}
	return s
}

// strEq is Go string equality.
func (fc *FnCtx) strEq(a, b string) string {
	if a == "str_empty" {
		return eq(app("strlen", b), bvLit(0, 64))
	}
	if b == "str_empty" {
		return eq(app("strlen", a), bvLit(0, 64))
	}
	return eq(a, b)
}

// ---------------------------------------------------------------------------
// constants and operands

func (fc *FnCtx) constVal(c *ssa.Const) Val {
	t := c.Type()
	if c.Value == nil {
		return zeroVal(t)
	}
	return fc.constOfType(c.Value, t)
}

func (fc *FnCtx) constOfType(cv constant.Value, t types.Type) Val {
	if w, _, ok := isIntType(t); ok {
		var u uint64
		if i, exact := constant.Int64Val(constant.ToInt(cv)); exact {
			u = uint64(i)
		} else if uu, exact := constant.Uint64Val(constant.ToInt(cv)); exact {
			u = uu
		} else {
			fc.unsup("constant out of range")
		}
		return Val{T: t, L: []string{bvLit(u, w)}}
	}
	if isBoolType(t) {
		if constant.BoolVal(cv) {
			return Val{T: t, L: []string{"true"}}
		}
		return Val{T: t, L: []string{"false"}}
	}
	if isStringType(t) {
		return Val{T: t, L: []string{fc.strConst(constant.StringVal(cv))}}
	}
	// floats etc.
	v := fc.freshVal("const", t)
	return v
}

func (fc *FnCtx) operand(v ssa.Value) Val {
	if val, ok := fc.vals[v]; ok {
		return val
	}
	switch x := v.(type) {
	case *ssa.Const:
		return fc.constVal(x)
	case *ssa.Global:
		val := fc.globalAddr(x)
		fc.vals[v] = val
		return val
	case *ssa.Function:
		val := Val{T: x.Type(), L: []string{fc.funcRef(x)}}
		fc.vals[v] = val
		return val
	case *ssa.Builtin:
		return Val{T: x.Type(), L: []string{bvLit(0, 64)}}
	}
	// value used before definition (should not happen in RPO except through back edges)
	fc.unsup(fmt.Sprintf("use before def of %s (%T)", v.Name(), v))
	val := fc.freshVal("undef_"+v.Name(), v.Type())
	fc.vals[v] = val
	return val
}

func (fc *FnCtx) funcRef(f *ssa.Function) string {
	name := "fn!" + f.String()
	t := fc.declare(name, SortRef)
	if _, ok := fc.declared["ax!"+name]; !ok {
		fc.declared["ax!"+name] = "x"
		fc.axiom(not(eq(t, bvLit(0, 64))))
	}
	return t
}

// globalAddr: address of a package-level variable.
func (fc *FnCtx) globalAddr(g *ssa.Global) Val {
	elem := g.Type().Underlying().(*types.Pointer).Elem()
	name := "glob!" + g.String()
	ref := fc.declare(name, SortRef)
	if _, ok := fc.declared["ax!"+name]; !ok {
		fc.declared["ax!"+name] = "x"
		fc.axiom(not(eq(ref, bvLit(0, 64))))
		fc.axiom(app("bvult", ref, "allocbase"))
		fc.axiom(eq(app("sub_fid", ref), bvLit(0, 16)))
	}
	if ptrIsThin(elem) {
		return Val{T: g.Type(), L: []string{ref}}
	}
	return Val{T: g.Type(), L: []string{bvLit(0, 16), ref, bvLit(0, 64)}}
}

// ---------------------------------------------------------------------------
// integer helpers

func (fc *FnCtx) convInt(x string, fromW int, fromSigned bool, toW int) string {
	switch {
	case fromW == toW:
		return x
	case fromW > toW:
		return app(fmt.Sprintf("(_ extract %d 0)", toW-1), x)
	case fromSigned:
		return app(fmt.Sprintf("(_ sign_extend %d)", toW-fromW), x)
	default:
		return app(fmt.Sprintf("(_ zero_extend %d)", toW-fromW), x)
	}
}

func (fc *FnCtx) binop(op token.Token, x, y Val, pos token.Pos) Val {
	t := x.T
	if isStringType(t) {
		switch op {
		case token.EQL:
			return boolVal(fc.strEq(x.L[0], y.L[0]))
		case token.NEQ:
			return boolVal(not(fc.strEq(x.L[0], y.L[0])))
		case token.ADD:
			r := fc.declareFresh("strcat", SortStr)
			fc.cur.assume(and(eq(app("strlen", r), app("bvadd", app("strlen", x.L[0]), app("strlen", y.L[0]))), fc.strWF(r)))
			// a short constant operand: its bytes are where the concatenation puts them (ground facts, no quantifier)
			for lit, term := range fc.strConsts {
				if len(lit) > 16 {
					continue
				}
				if term == y.L[0] {
					for k := 0; k < len(lit); k++ {
						fc.cur.assume(eq(app("strat", r, app("bvadd", app("strlen", x.L[0]), bvLit(uint64(k), 64))), bvLit(uint64(lit[k]), 8)))
					}
				}
				if term == x.L[0] {
					for k := 0; k < len(lit); k++ {
						fc.cur.assume(eq(app("strat", r, bvLit(uint64(k), 64)), bvLit(uint64(lit[k]), 8)))
					}
				}
			}
			return Val{T: t, L: []string{r}}
		case token.LSS, token.LEQ, token.GTR, token.GEQ:
			r := fc.declareFresh("strcmp", SortBool)
			return boolVal(r)
		}
	}
	if w, signed, ok := isIntType(t); ok {
		a, b := x.L[0], y.L[0]
		cmp := func(s, u string) Val {
			if signed {
				return boolVal(app(s, a, b))
			}
			return boolVal(app(u, a, b))
		}
		switch op {
		case token.ADD:
			return Val{T: t, L: []string{app("bvadd", a, b)}}
		case token.SUB:
			return Val{T: t, L: []string{app("bvsub", a, b)}}
		case token.MUL:
			return Val{T: t, L: []string{app("bvmul", a, b)}}
		case token.QUO, token.REM:
			if !fc.specMode {
				fc.oblige("div", "zero", not(eq(b, bvLit(0, w))), pos, "division by zero")
			}
			var o string
			switch {
			case op == token.QUO && signed:
				o = "bvsdiv"
			case op == token.QUO:
				o = "bvudiv"
			case signed:
				o = "bvsrem"
			default:
				o = "bvurem"
			}
			return Val{T: t, L: []string{app(o, a, b)}}
		case token.AND:
			return Val{T: t, L: []string{app("bvand", a, b)}}
		case token.OR:
			return Val{T: t, L: []string{app("bvor", a, b)}}
		case token.XOR:
			return Val{T: t, L: []string{app("bvxor", a, b)}}
		case token.AND_NOT:
			return Val{T: t, L: []string{app("bvand", a, app("bvnot", b))}}
		case token.SHL, token.SHR:
			// shift count y may have another width / signedness
			yw, ysigned, _ := isIntType(y.T)
			cnt := b
			if ysigned && !fc.specMode {
				fc.oblige("shift", "negative", app("bvsge", cnt, bvLit(0, yw)), pos, "negative shift count")
			}
			var big string // count >= w
			big = app("bvuge", cnt, bvLit(uint64(w), yw))
			c := fc.convInt(cnt, yw, false, w)
			var res string
			if op == token.SHL {
				res = ite(big, bvLit(0, w), app("bvshl", a, c))
			} else if signed {
				res = ite(big, app("bvashr", a, bvLit(uint64(w-1), w)), app("bvashr", a, c))
			} else {
				res = ite(big, bvLit(0, w), app("bvlshr", a, c))
			}
			return Val{T: t, L: []string{res}}
		case token.EQL:
			return boolVal(eq(a, b))
		case token.NEQ:
			return boolVal(not(eq(a, b)))
		case token.LSS:
			return cmp("bvslt", "bvult")
		case token.LEQ:
			return cmp("bvsle", "bvule")
		case token.GTR:
			return cmp("bvsgt", "bvugt")
		case token.GEQ:
			return cmp("bvsge", "bvuge")
		}
	}
	if isBoolType(t) {
		switch op {
		case token.EQL:
			return boolVal(eq(x.L[0], y.L[0]))
		case token.NEQ:
			return boolVal(not(eq(x.L[0], y.L[0])))
		case token.LAND:
			return boolVal(and(x.L[0], y.L[0]))
		case token.LOR:
			return boolVal(or(x.L[0], y.L[0]))
		}
	}
	// generic equality: leafwise
	if op == token.EQL || op == token.NEQ {
		e := fc.valEq(x, y)
		if op == token.NEQ {
			e = not(e)
		}
		return boolVal(e)
	}
	fc.unsup(fmt.Sprintf("binop %s on %s", op, t))
	return fc.freshVal("binop", types.Typ[types.Bool])
}

func boolVal(t string) Val { return Val{T: types.Typ[types.Bool], L: []string{t}} }

// valEq is Go's == on two values of (assignable) types.
func (fc *FnCtx) valEq(x, y Val) string {
	// interface vs concrete: wrap the concrete side
	if isInterface(x.T) && !isInterface(y.T) {
		y = fc.makeIface(y, x.T)
	} else if isInterface(y.T) && !isInterface(x.T) {
		x = fc.makeIface(x, y.T)
	}
	if len(x.L) != len(y.L) {
		fc.unsup(fmt.Sprintf("valEq leaf mismatch %s vs %s", x.T, y.T))
		return fc.declareFresh("eq", SortBool)
	}
	if _, ok := x.T.Underlying().(*types.Slice); ok {
		// only comparison with nil is legal
		return eq(x.L[0], y.L[0])
	}
	ls := layout(x.T)
	var parts []string
	for i := range x.L {
		if ls[i].Sort == SortStr {
			parts = append(parts, fc.strEq(x.L[i], y.L[i]))
		} else {
			parts = append(parts, eq(x.L[i], y.L[i]))
		}
	}
	return and(parts...)
}

// ---------------------------------------------------------------------------
// interfaces

func (fc *FnCtx) tagOf(t types.Type) string {
	return bvLit(uint64(fc.eng.tagID(t)), 16)
}

// makeIface boxes a concrete value into an interface value.
func (fc *FnCtx) makeIface(x Val, it types.Type) Val {
	if isInterface(x.T) {
		return Val{T: it, L: x.L}
	}
	if b, ok := x.T.Underlying().(*types.Basic); ok && b.Kind() == types.UntypedNil {
		return zeroVal(it)
	}
	tag := fc.tagOf(x.T)
	var pay string
	ls := layout(x.T)
	switch {
	case len(ls) == 1 && ls[0].Sort == SortBool:
		pay = ite(x.L[0], bvLit(1, 64), bvLit(0, 64))
	case len(ls) == 1 && sortWidth(ls[0].Sort) > 0:
		pay = fc.convInt(x.L[0], sortWidth(ls[0].Sort), false, 64)
	case len(ls) == 1 && ls[0].Sort == SortStr:
		pay = app("strbox", x.L[0])
		fc.axiomOnce("strunbox!"+x.L[0], eq(app("strunbox", pay), x.L[0]))
	default:
		// box: fresh immutable object holding the leaves
		ref := fc.allocRef()
		savedNR := fc.noRecord
		fc.noRecord = true
		defer func() { fc.noRecord = savedNR }()
		for k, lf := range ls {
			name := fmt.Sprintf("BOX|%s|%d", typeKey(x.T), k)
			srt := arraySort(SortRef, lf.Sort)
			fc.cur.set(name, srt, app("store", fc.cur.get(name, srt), ref, x.L[k]))
		}
		pay = ref
	}
	return Val{T: it, L: []string{tag, pay}}
}

func (fc *FnCtx) axiomOnce(key, term string) {
	if _, ok := fc.declared["ax!"+key]; ok {
		return
	}
	fc.declared["ax!"+key] = "x"
	fc.axiom(term)
}

// unboxIface extracts the concrete value of type t from interface payload (assuming the tag matches).
func (fc *FnCtx) unboxIface(st *State, iv Val, t types.Type) Val {
	ls := layout(t)
	pay := iv.L[1]
	switch {
	case len(ls) == 1 && ls[0].Sort == SortBool:
		return Val{T: t, L: []string{not(eq(pay, bvLit(0, 64)))}}
	case len(ls) == 1 && sortWidth(ls[0].Sort) > 0:
		return Val{T: t, L: []string{fc.convInt(pay, 64, false, sortWidth(ls[0].Sort))}}
	case len(ls) == 1 && ls[0].Sort == SortStr:
		return Val{T: t, L: []string{app("strunbox", pay)}}
	}
	out := Val{T: t, L: make([]string, len(ls))}
	for k, lf := range ls {
		name := fmt.Sprintf("BOX|%s|%d", typeKey(t), k)
		out.L[k] = app("select", st.get(name, arraySort(SortRef, lf.Sort)), pay)
	}
	return out
}

// implementsTerm: does the dynamic type with this tag implement interface it?
func (fc *FnCtx) implementsTerm(tag string, it types.Type) string {
	iface := it.Underlying().(*types.Interface)
	var alts []string
	for _, kt := range fc.eng.knownTypes() {
		if types.Implements(kt, iface) {
			alts = append(alts, eq(tag, fc.tagOf(kt)))
		}
	}
	// foreign dynamic types may implement anything
	foreign := app("bvuge", tag, bvLit(foreignTagBase, 16))
	uf := app(qsym("impl!"+typeKey(it)), tag)
	fc.declareFunOnce(qsym("impl!"+typeKey(it)), "("+SortTag+") Bool")
	alts = append(alts, and(foreign, uf))
	return or(alts...)
}

func (fc *FnCtx) declareFunOnce(qname, sig string) {
	if _, ok := fc.declared["fun!"+qname]; ok {
		return
	}
	fc.declared["fun!"+qname] = sig
	fc.decls = append(fc.decls, fmt.Sprintf("(declare-fun %s %s)", qname, sig))
}

// ---------------------------------------------------------------------------
// CFG analysis

func (fc *FnCtx) analyzeLoops() {
	fn := fc.fn
	fc.loops = map[*ssa.BasicBlock]*loopInfo{}
	fc.backEdge = map[[2]int]bool{}
	for _, b := range fn.Blocks {
		for _, s := range b.Succs {
			if s.Dominates(b) {
				fc.backEdge[[2]int{b.Index, s.Index}] = true
				li := fc.loops[s]
				if li == nil {
					li = &loopInfo{header: s, body: map[*ssa.BasicBlock]bool{s: true}}
					fc.loops[s] = li
				}
				// natural loop body
				var stack []*ssa.BasicBlock
				if !li.body[b] {
					li.body[b] = true
					stack = append(stack, b)
				}
				for len(stack) > 0 {
					x := stack[len(stack)-1]
					stack = stack[:len(stack)-1]
					for _, p := range x.Preds {
						if !li.body[p] {
							li.body[p] = true
							stack = append(stack, p)
						}
					}
				}
			}
		}
	}
	var hs []*ssa.BasicBlock
	for h := range fc.loops {
		hs = append(hs, h)
	}
	sort.Slice(hs, func(i, j int) bool {
		pi, pj := fc.loopPos(hs[i]), fc.loopPos(hs[j])
		if pi != pj {
			return pi < pj
		}
		// same first position: the enclosing loop comes first, then block order
		if fc.loops[hs[i]].body[hs[j]] != fc.loops[hs[j]].body[hs[i]] {
			return fc.loops[hs[i]].body[hs[j]]
		}
		return hs[i].Index < hs[j].Index
	})
	for i, h := range hs {
		fc.loops[h].ord = i + 1
	}
	if os.Getenv("GOVC_DEBUGLOOPS") != "" {
		for _, h := range hs {
			fmt.Fprintf(os.Stderr, "LOOPS %s header=%d ord=%d pos=%d nbody=%d\n", fc.name, h.Index, fc.loops[h].ord, fc.loopPos(h), len(fc.loops[h].body))
		}
	}
}

// loopPos orders loops by source position: smallest valid position of any instruction in the loop.
func (fc *FnCtx) loopPos(h *ssa.BasicBlock) token.Pos {
	li := fc.loops[h]
	best := token.Pos(1 << 40)
	for b := range li.body {
		for _, in := range b.Instrs {
			if _, isPhi := in.(*ssa.Phi); isPhi {
				continue // a phi carries the position of the variable's declaration, not of the loop
			}
			p := in.Pos()
			if d, ok := in.(*ssa.DebugRef); ok {
				p = d.Expr.Pos()
			}
			if p.IsValid() && !fc.posInFn(p) {
				if os.Getenv("GOVC_DEBUGLOOPS") != "" {
					fmt.Fprintf(os.Stderr, "FOREIGNPOS %s: %T %s at %s\n", fc.name, in, in.String(), fc.eng.fset.Position(p))
				}
				continue
			}
			if p.IsValid() && p < best {
				best = p
			}
		}
	}
	return best
}

func (fc *FnCtx) rpo() []*ssa.BasicBlock {
	seen := map[*ssa.BasicBlock]bool{}
	var post []*ssa.BasicBlock
	var visit func(b *ssa.BasicBlock)
	visit = func(b *ssa.BasicBlock) {
		seen[b] = true
		for _, s := range b.Succs {
			if !seen[s] && !fc.backEdge[[2]int{b.Index, s.Index}] {
				visit(s)
			}
		}
		post = append(post, b)
	}
	visit(fc.fn.Blocks[0])
	for i, j := 0, len(post)-1; i < j; i, j = i+1, j-1 {
		post[i], post[j] = post[j], post[i]
	}
	return post
}

// edgeCond is the condition under which control flows from p (at its end) to s.
func (fc *FnCtx) edgeCond(p, s *ssa.BasicBlock) string {
	end := fc.endState[p]
	if end == nil {
		return "false"
	}
	last := p.Instrs[len(p.Instrs)-1]
	switch t := last.(type) {
	case *ssa.If:
		c := fc.operand(t.Cond).L[0]
		if p.Succs[0] == s && p.Succs[1] == s {
			return end.guard
		}
		if p.Succs[0] == s {
			return and(end.guard, c)
		}
		return and(end.guard, not(c))
	case *ssa.Jump:
		return end.guard
	}
	return "false"
}

func (fc *FnCtx) isRepoPtrTag(tag string) string {
	if _, ok := fc.declared["fun!isrepoptr"]; !ok {
		fc.declared["fun!isrepoptr"] = "x"
		var alts []string
		for _, t := range fc.eng.knownTypes() {
			// every pointer-to-struct type known to occur inside interfaces (in-repo types and the library
			// error wrappers *os.PathError, *os.LinkError, ...): no typed nil pointers inside interfaces
			if p, ok := t.(*types.Pointer); ok {
				if _, isSt := p.Elem().Underlying().(*types.Struct); isSt {
					alts = append(alts, eq("t", fc.tagOf(t)))
				}
			}
		}
		fc.decls = append(fc.decls, fmt.Sprintf("(define-fun isrepoptr ((t %s)) Bool %s)", SortTag, or(alts...)))
	}
	return app("isrepoptr", tag)
}

func (fc *FnCtx) sealedTagFact(t types.Type, iface *types.Interface, tag string) string {
	name := qsym("sealed!" + typeKey(t))
	if _, ok := fc.declared["fun!"+name]; !ok {
		fc.declared["fun!"+name] = "x"
		alts := []string{eq("t", bvLit(0, 16))}
		for _, kt := range fc.eng.knownTypes() {
			if types.Implements(kt, iface) {
				alts = append(alts, eq("t", fc.tagOf(kt)))
			}
		}
		fc.decls = append(fc.decls, fmt.Sprintf("(define-fun %s ((t %s)) Bool %s)", name, SortTag, or(alts...)))
	}
	return app(name, tag)
}

// posInFn: p lies within the source text of the function (positions of instructions the SSA builder copies from
// elsewhere, e.g. the declaration of a promoted method, must not take part in source-order numbering: token.Pos values
// of different files are ordered by load order, which varies between runs).
func (fc *FnCtx) posInFn(p token.Pos) bool {
	syn := fc.fn.Syntax()
	if syn == nil {
		return true
	}
	return syn.Pos() <= p && p <= syn.End()
}
