package main

import (
	"os"
	"go/ast"
	"fmt"
	"go/token"
	"go/types"
	"sort"
	"strings"

	"golang.org/x/tools/go/ssa"
)

// doCall translates a call and returns its result value (a tuple value for multi-result calls).
func (fc *FnCtx) doCall(cc *ssa.CallCommon, pos token.Pos, site ssa.Instruction) Val {
	resT := callResultType(cc)
	var args []Val
	for _, a := range cc.Args {
		args = append(args, fc.operand(a))
	}
	if cc.IsInvoke() {
		return fc.doInvoke(cc, args, pos, resT)
	}
	switch callee := cc.Value.(type) {
	case *ssa.Builtin:
		return fc.doBuiltin(callee, cc, args, pos, resT)
	case *ssa.Function:
		return fc.callFunction(callee, args, nil, pos, resT)
	case *ssa.MakeClosure:
		var binds []Val
		for _, b := range callee.Bindings {
			binds = append(binds, fc.operand(b))
		}
		return fc.callFunction(callee.Fn.(*ssa.Function), args, binds, pos, resT)
	}
	// dynamic call through a function value
	fv := fc.operand(cc.Value)
	fc.oblige("nil", "call", not(eq(fv.L[0], bvLit(0, 64))), pos, "call of nil function value")
	fc.anchorBefore("call dynamic", pos)
	if isCancelFunc(cc.Value) {
		fc.noteTrusted("context.CancelFunc: cancelling a context has no effect on the state modelled here")
		r := fc.freshValWF("cancel", resT)
		fc.anchorAfter("call dynamic", pos)
		return r
	}
	if par, ok := cc.Value.(*ssa.Parameter); ok && fc.c != nil && fc.c.Callbacks[par.Name()] {
		fc.noteTrusted("callback parameter " + par.Name() + " of " + fc.name + " assumed to modify nothing visible here")
		r := fc.freshValWF("cb", resT)
		fc.anchorAfter("call dynamic", pos)
		return r
	}
	fc.havocAll()
	fc.noteTrusted("dynamic function value call: havoc of all state")
	r := fc.freshValWF("dyn", resT)
	fc.anchorAfter("call dynamic", pos)
	return r
}

func callResultType(cc *ssa.CallCommon) types.Type {
	sig := cc.Signature()
	res := sig.Results()
	switch res.Len() {
	case 0:
		return types.NewTuple()
	case 1:
		return res.At(0).Type()
	}
	return res
}

// auditAntecedents (GOVC_AUDIT_ANTECEDENTS=1): add a reachability query for the antecedent of every implication among
// the anchored assertions and postconditions -- an audit for clauses that hold only because their antecedent is dead.
var auditAntecedents = os.Getenv("GOVC_AUDIT_ANTECEDENTS") != ""

func (fc *FnCtx) noteTrusted(s string) { fc.trustedUsed[s] = true }

type anchorKey struct {
	pos  token.Pos
	name string
}

// anchor handling: the enclosing function's contract may attach assertions / ghost updates to call sites.
func (fc *FnCtx) anchorBefore(anchor string, pos token.Pos) { fc.runAnchors(anchor, "before", pos) }
func (fc *FnCtx) anchorAfter(anchor string, pos token.Pos)  { fc.runAnchors(anchor, "after", pos) }

func (fc *FnCtx) runAnchors(anchor, when string, pos token.Pos) {
	if fc.inlineDepth > 0 {
		return
	}
	if fc.probe {
		if when == "before" {
			fc.anchorLog = append(fc.anchorLog, anchorKey{pos, anchor})
		}
		return
	}
	if fc.c == nil {
		return
	}
	var ord int
	if when == "before" {
		ord = fc.eng.anchorOrds[fc.fn][anchorKey{pos, anchor}]
		if ord == 0 {
			ord = 1000 + fc.ordinal("anchor:"+anchor)
		}
		fc.anchorOrd[anchor] = ord
	} else {
		ord = fc.anchorOrd[anchor]
	}
	full := fmt.Sprintf("%s#%d", anchor, ord)
	fc.anchorsSeen[full] = true
	for _, a := range fc.c.Asserts {
		if a.When == when && (a.Anchor == full || a.Anchor == anchor+"#*") {
			fc.anchorsHit[a] = true
			env := fc.anchorEnv()
			if auditAntecedents {
				if ante, ok := env.antecedentOf(a.Expr); ok {
					st := fc.cur.derive()
					st.assume(ante)
					fc.cover("ante!assert!"+strings.ReplaceAll(full, " ", "_")+"!"+truncate(a.Src, 60), st, pos)
				}
			}
			goal := env.evalBool(a.Expr)
			fc.oblige("assert", strings.ReplaceAll(full, " ", "_"), goal, pos, "assert "+when+" "+full+": "+a.Src)
		}
	}
	for _, a := range fc.c.Assumes {
		if a.When == when && (a.Anchor == full || a.Anchor == anchor+"#*") {
			fc.anchorsHit[a] = true
			env := fc.anchorEnv()
			fc.cur.assume(env.evalBool(a.Expr))
			if strings.HasPrefix(a.Anchor, "make ") {
				fc.noteTrusted("ghost attributes of a freshly made channel (" + a.Anchor + "): " + a.Src)
			} else if !strings.Contains(a.Anchor, "Mutex).") {
				fc.noteTrusted("assumed outcome of a call in " + fc.name + " (" + a.Anchor + "): " + a.Src)
			} else {
				fc.noteTrusted("monitor invariant assumed at lock acquisition in " + fc.name + " (re-established by every function that takes the lock): " + a.Src)
			}
		}
	}
	for _, a := range fc.c.Interf {
		if a.When == when && (a.Anchor == full || a.Anchor == anchor+"#*") {
			fc.anchorsHit[a] = true
			env := fc.anchorEnv()
			ns := newNameSet()
			var items []string
			for _, it := range strings.Split(a.Src, ",") {
				items = append(items, strings.TrimSpace(it))
			}
			fc.bytesOfBases = nil
			if precise := fc.modifiesNames(env, items, ns); len(precise) > 0 || len(fc.bytesOfBases) > 0 {
				userErr("interference: *p items are not supported (%s)", a.Src)
			}
			fc.cur = fc.cur.havocked(ns)
		}
	}
	for _, u := range fc.c.GhostUpd {
		if u.When == when && (u.Anchor == full || u.Anchor == anchor+"#*") {
			fc.anchorsHit[u] = true
			env := fc.anchorEnv()
			v := env.eval(u.Expr)
			fc.ghostSet(u.Ghost, v, env)
		}
	}
}

// anchorEnv: environment at the current instruction (locals resolved through debug info).
func (fc *FnCtx) anchorEnv() *Env {
	env := fc.contractEnv(fc.cur, fc.entry)
	in := fc.curInstr
	b := in.Block()
	idx := 0
	for i, x := range b.Instrs {
		if x == in {
			idx = i
		}
	}
	st := fc.cur
	// older(x) at a program point inside a loop: x exists already when the current iteration of the innermost
	// enclosing loop starts (its address is below that loop's first allocation)
	var inner *loopInfo
	for _, li := range fc.loops {
		if (li.body[b] || li.header == b) && li.hstate != nil && (inner == nil || len(li.body) < len(inner.body)) {
			inner = li
		}
	}
	if inner != nil {
		env.olderLimit = app("bvadd", "allocbase", bvLit(uint64(inner.headCtr+1)*16, 64))
	}
	for i, a := range fc.anchorArgs {
		env.vars[fmt.Sprintf("arg%d", i)] = a
	}
	if fc.anchorRes != nil {
		r := *fc.anchorRes
		env.vars["ret"] = r
		if tp, ok := r.T.(*types.Tuple); ok {
			for i := 0; i < tp.Len(); i++ {
				off, n := tupleRange(tp, i)
				env.vars[fmt.Sprintf("ret%d", i)] = Val{T: tp.At(i).Type(), L: r.L[off : off+n]}
			}
		}
	}
	env.local = func(name string) (Val, bool) {
		v, isAddr, ok := fc.lookupLocal(name, b, idx)
		if !ok {
			return Val{}, false
		}
		val := fc.operand(v)
		if isAddr && isArrayPtr(val.T) {
			return val, true
		}
		if isAddr {
			lv := fc.loadPtr(st, val)
			if fc.cur != nil {
				fc.cur.assume(fc.wfFacts(lv))
			}
			return lv, true
		}
		return val, true
	}
	return env
}

// ---------------------------------------------------------------------------

func (fc *FnCtx) calleeKey(fn *ssa.Function) string { return fc.eng.fnName(fn) }

func (fc *FnCtx) callFunction(callee *ssa.Function, args []Val, binds []Val, pos token.Pos, resT types.Type) Val {
	key := fc.calleeKey(callee)
	short := shortCallee(key)
	anchor := "call " + fc.anchorName(callee)
	fc.anchorArgs = args
	fc.anchorBefore(anchor, pos)
	r := fc.callFunction2(callee, args, binds, pos, resT, key, short)
	fc.anchorArgs = args
	fc.anchorRes = &r
	fc.anchorAfter(anchor, pos)
	fc.anchorRes = nil
	return r
}

func (fc *FnCtx) callFunction2(callee *ssa.Function, args []Val, binds []Val, pos token.Pos, resT types.Type, key, short string) Val {
	if r, ok := fc.specialCall(callee, args, pos, resT); ok {
		return r
	}
	if callee.Signature.Recv() != nil && len(args) > 0 && fc.eng.inRepo(callee) {
		if _, ok := args[0].T.Underlying().(*types.Pointer); ok {
			fc.oblige("nil", "recv", ptrNonNil(args[0]), pos, "method call on nil receiver")
		}
	}
	c := fc.eng.contracts[key]
	if c != nil {
		return fc.applyContract(callee, c, args, binds, pos, resT, "true", short)
	}
	if fc.eng.inRepo(callee) && callee.Blocks != nil {
		if fc.canInline(callee) {
			return fc.inline(callee, args, binds, pos, resT)
		}
		if fc.inlineDepth <= 2 && len(binds) == 0 && fc.eng.dagInlineable(callee) {
			return fc.inlineDAG(callee, args, binds, pos, resT)
		}
		// no contract: havoc what it may write, results unconstrained
		fc.cur = fc.cur.havocked(fc.eng.summary(callee))
		fc.noteTrusted("uncontracted in-repo callee " + key + ": results unconstrained, writes havocked")
		return fc.freshValWF("r_"+short, resT)
	}
	// foreign function without a contract
	fc.foreignEffects(callee.Signature, args, key)
	return fc.freshValWF("r_"+short, resT)
}

// anchorName: callee name as written in anchors: package-relative for callees of the same package.
func (fc *FnCtx) anchorName(callee *ssa.Function) string {
	root := callee
	for root.Parent() != nil {
		root = root.Parent()
	}
	if root.Pkg != nil && fc.pkg != nil && root.Pkg.Pkg == fc.pkg {
		return callee.RelString(fc.pkg)
	}
	return shortCallee(fc.eng.fnName(callee))
}

func shortCallee(key string) string {
	if i := strings.LastIndex(key, "/"); i >= 0 {
		key = key[i+1:]
	}
	return key
}

// foreignEffects: a foreign callee may write into byte buffers it is handed.
func (fc *FnCtx) foreignEffects(sig *types.Signature, args []Val, key string) {
	fc.noteTrusted("foreign callee " + key + ": assumed not to panic, to write only into []byte arguments, results unconstrained")
	ns := newNameSet()
	foreignWrites(sig, ns)
	if len(ns.Names) > 0 {
		fc.cur = fc.cur.havocked(ns)
	}
}

func foreignWrites(sig *types.Signature, ns *NameSet) {
	check := func(t types.Type) {
		if s, ok := t.Underlying().(*types.Slice); ok {
			if b, ok := s.Elem().Underlying().(*types.Basic); ok && b.Kind() == types.Uint8 {
				ns.Add("E|uint8|0")
			}
		}
	}
	if sig.Recv() != nil {
		check(sig.Recv().Type())
	}
	for i := 0; i < sig.Params().Len(); i++ {
		check(sig.Params().At(i).Type())
	}
}

// applyContract: check requires, havoc modifies, assume ensures. cond restricts the call to a case (invoke dispatch).
func (fc *FnCtx) applyContract(callee *ssa.Function, c *Contract, args []Val, binds []Val, pos token.Pos, resT types.Type, cond string, short string) Val {
	env := &Env{fc: fc, pkg: fc.eng.contractPkg(callee, c), vars: map[string]Val{}, bound: map[string]Val{}, callSite: true}
	for i, p := range callee.Params {
		if i < len(args) {
			env.vars[p.Name()] = fc.coerce(args[i], p.Type())
		}
	}
	for i, fv := range callee.FreeVars {
		if i < len(binds) {
			env.vars["&"+fv.Name()] = binds[i]
		}
	}
	fc.ctr++
	fc.bindContractVars(env, c, fmt.Sprintf("callv%d", fc.ctr))
	env.resName = c.Results
	if len(env.resName) == 0 {
		res := callee.Signature.Results()
		for i := 0; i < res.Len(); i++ {
			env.resName = append(env.resName, res.At(i).Name())
		}
	}
	pre := fc.cur
	env.st, env.old = pre, pre
	for i, r := range c.Requires {
		goal := implies(cond, env.evalBool(r))
		fc.oblige("pre", fmt.Sprintf("%s!r%d", short, i+1), goal, pos, "precondition of "+short+": "+c.RequiresSrc[i])
	}
	if c.Trusted {
		fc.noteTrusted("trusted contract: " + c.Func)
	}
	// frame
	post := fc.havocForContract(callee, c, env, pre)
	fc.cur = post
	var res Val
	if c.IsFunction {
		// deterministic: the same arguments give the same result
		ls := layout(resT)
		res = Val{T: resT, L: make([]string, len(ls))}
		var argLeaves, argSorts []string
		for i, p := range callee.Params {
			if i < len(args) {
				a := fc.coerce(args[i], p.Type())
				argLeaves = append(argLeaves, a.L...)
				for _, lf := range layout(p.Type()) {
					argSorts = append(argSorts, lf.Sort)
				}
			}
		}
		for k, lf := range ls {
			fname := qsym(fmt.Sprintf("fn!%s!%d", c.Func, k))
			fc.declareFunOnce(fname, "("+strings.Join(argSorts, " ")+") "+lf.Sort)
			if len(argLeaves) == 0 {
				res.L[k] = fname
			} else {
				res.L[k] = app(fname, argLeaves...)
			}
		}
		post.assume(fc.wfFacts(res))
	} else {
		res = fc.freshValWF("r_"+short, resT)
	}
	env.st, env.old = post, pre
	env.results = splitResults(res, callee.Signature.Results())
	// "vars k T": the callee proves its postconditions for an arbitrary k, provided no precondition mentions k; the
	// caller may then use them for every k (universally quantified here). Otherwise k stays one unknown constant.
	quantVars := len(c.Vars) > 0 && !c.IsLemma
	for _, r := range c.Requires {
		for _, v := range c.Vars {
			if mentionsIdent(r, v[0]) {
				quantVars = false
			}
		}
	}
	env.dualQuant = true
	defer func() { env.dualQuant = false }()
	for ei, e := range c.Ensures {
		if fc.skipEnsures(c, ei) {
			continue
		}
		var used [][2]string
		if quantVars {
			for _, v := range c.Vars {
				if mentionsIdent(e, v[0]) {
					used = append(used, v)
				}
			}
		}
		if len(used) == 0 {
			t := env.evalBool(e)
			post.assume(implies(cond, t))
			if c.IsFunction && len(env.bound) == 0 {
				// facts about the uninterpreted result term of a `function`: independent of the program state, kept as
				// axioms so that they survive wherever the term is used later (nested spec calls, other states)
				var reqs []string
				for _, r := range c.Requires {
					reqs = append(reqs, env.evalBool(r))
				}
				fc.axiom(implies(and(append([]string{cond}, reqs...)...), t))
			}
			continue
		}
		var binders []string
		saved := map[string]Val{}
		okSorts := true
		for _, v := range used {
			te, err := parseExprSrc(v[1])
			if err != nil {
				userErr("contract variable %s: %v", v[0], err)
			}
			t := env.resolveType(te)
			ls := layout(t)
			if len(ls) != 1 {
				okSorts = false
				break
			}
			q := qsym(fc.fresh("qv_" + v[0]))
			saved[v[0]] = env.vars[v[0]]
			env.vars[v[0]] = Val{T: t, L: []string{q}}
			binders = append(binders, fmt.Sprintf("(%s %s)", q, ls[0].Sort))
		}
		if okSorts {
			env.bound["!callvars"] = Val{} // evaluating under a binder: no side assumptions on the current state
			body := env.evalBool(e)
			delete(env.bound, "!callvars")
			fc.hasQuant = true
			post.assume(implies(cond, fmt.Sprintf("(forall (%s) %s)", strings.Join(binders, " "), body)))
		}
		for k, v := range saved {
			env.vars[k] = v
		}
		if !okSorts {
			post.assume(implies(cond, env.evalBool(e)))
		}
	}
	return res
}

func mentionsIdent(e ast.Expr, name string) bool {
	found := false
	ast.Inspect(e, func(n ast.Node) bool {
		if id, ok := n.(*ast.Ident); ok && id.Name == name {
			found = true
		}
		return !found
	})
	return found
}

func splitResults(res Val, tp *types.Tuple) []Val {
	if tp.Len() == 0 {
		return []Val{}
	}
	if tp.Len() == 1 {
		return []Val{res}
	}
	var out []Val
	for i := 0; i < tp.Len(); i++ {
		off, n := tupleRange(tp, i)
		out = append(out, Val{T: tp.At(i).Type(), L: res.L[off : off+n]})
	}
	return out
}

// havocForContract builds the post-call state from the callee's modifies clause (or computed summary).
func (fc *FnCtx) havocForContract(callee *ssa.Function, c *Contract, env *Env, pre *State) *State {
	if c.Pure {
		return pre.derive()
	}
	if !c.HasModifies {
		return pre.havocked(fc.eng.summary(callee))
	}
	ns := newNameSet()
	post := pre
	fc.bytesOfBases = nil
	precise := fc.modifiesNames(env, c.Modifies, ns)
	post = pre.havocked(ns)
	if len(fc.bytesOfBases) > 0 && !ns.All && !ns.Has("E|uint8|0") {
		inner := arraySort(bvSort(64), bvSort(8))
		srt := arraySort(SortRef, inner)
		arr := post.get("E|uint8|0", srt)
		for _, b := range fc.bytesOfBases {
			arr = app("store", arr, b, fc.declareFresh("modbytes", inner))
		}
		post = post.derive()
		post.set("E|uint8|0", srt, arr)
	}
	fc.bytesOfBases = nil
	saved := fc.cur
	fc.cur = post
	for _, p := range precise {
		elem := p.T.Underlying().(*types.Pointer).Elem()
		if ptrIsThin(elem) {
			// whole object: havoc its fields at this ref
			fc.storeAt(post, elem, p.L[0], fc.freshVal("mod", elem))
		} else {
			fc.storeFat(post, elem, fatOf(p), fc.freshVal("mod", elem))
		}
	}
	fc.cur = saved
	return post
}

// modifiesNames turns modifies items into state names (ns) and returns the values of the "*p" items.
func (fc *FnCtx) modifiesNames(env *Env, items []string, ns *NameSet) []Val {
	var precise []Val
	for _, item := range items {
		switch {
		case item == "bytes":
			ns.Add("E|uint8|0")
		case item == "all":
			ns.All = true
		case strings.HasPrefix(item, "ghost."):
			e2ghostNames(strings.TrimPrefix(item, "ghost."), ns)
		case strings.HasPrefix(item, "*"):
			e, err := parseExprSrc(strings.TrimPrefix(item, "*"))
			if err != nil {
				userErr("modifies item %s: %v", item, err)
			}
			precise = append(precise, env.eval(e))
		case strings.HasPrefix(item, "mapof "):
			e, err := parseExprSrc(strings.TrimPrefix(item, "mapof "))
			if err != nil {
				userErr("modifies item %s: %v", item, err)
			}
			mv := env.eval(e)
			fc.eng.mapStateNames(mv.T.Underlying().(*types.Map), ns)
		case strings.HasPrefix(item, "elems "):
			// elems T : element storage of slices of T
			e, err := parseExprSrc(strings.TrimPrefix(item, "elems "))
			if err != nil {
				userErr("modifies item %s: %v", item, err)
			}
			t := env.resolveType(e)
			for k := range layout(t) {
				ns.Add(fmt.Sprintf("E|%s|%d", typeKey(t), k))
			}
		case item == "nothing":
		case strings.HasPrefix(item, "bytesof "):
			// only the backing array of this byte slice (and arrays allocated by the callee) may be written
			e, err := parseExprSrc(strings.TrimPrefix(item, "bytesof "))
			if err != nil {
				userErr("modifies item %s: %v", item, err)
			}
			sv := env.eval(e)
			if len(sv.L) != 4 {
				userErr("modifies item %s: not a slice", item)
			}
			fc.bytesOfBases = append(fc.bytesOfBases, sv.L[0])
		default:
			fc.eng.modifiesItemNames(env, item, ns)
		}
	}
	return precise
}

// modifiesItemNames: "p.Field" or "T.Field" -> heap array names of that field (all objects of the type).
func (e *Engine) modifiesItemNames(env *Env, item string, ns *NameSet) {
	parts := strings.Split(item, ".")
	if len(parts) < 2 {
		userErr("modifies item %q not understood", item)
	}
	var t types.Type
	if v, ok := env.vars[parts[0]]; ok {
		t = v.T
	} else if obj := env.pkg.Scope().Lookup(parts[0]); obj != nil {
		t = obj.Type()
	} else {
		userErr("modifies item %q: unknown %s", item, parts[0])
	}
	for pi, fname := range parts[1:] {
		if p, ok := t.Underlying().(*types.Pointer); ok {
			t = p.Elem()
		}
		last := pi == len(parts)-2
		if fname == "*" {
			e.objectNames(t, ns)
			return
		}
		obj, index, _ := types.LookupFieldOrMethod(t, true, env.pkg, fname)
		if _, ok := obj.(*types.Var); !ok {
			if n := namedOf(t); n != nil && n.Obj().Pkg() != nil {
				obj, index, _ = types.LookupFieldOrMethod(t, true, n.Obj().Pkg(), fname)
			}
		}
		if _, ok := obj.(*types.Var); !ok {
			userErr("modifies item %q: no field %s in %s", item, fname, t)
		}
		for ii, fi := range index {
			if p, ok := t.Underlying().(*types.Pointer); ok {
				t = p.Elem()
			}
			st := t.Underlying().(*types.Struct)
			ft := st.Field(fi).Type()
			if last && ii == len(index)-1 {
				if ptrIsThin(ft) {
					e.objectNames(ft, ns)
				} else {
					for k := range layout(ft) {
						ns.Add(fmt.Sprintf("H|%s|%d|%d", typeKey(t), fi, k))
					}
				}
			}
			t = ft
		}
	}
}

// ---------------------------------------------------------------------------
// inlining of small straight-line callees

func (fc *FnCtx) canInline(callee *ssa.Function) bool {
	if fc.inlineDepth > 4 {
		return false
	}
	return fc.eng.inlineable(callee)
}

func (e *Engine) inlineable(fn *ssa.Function) bool {
	if v, ok := e.inlineMemo[fn]; ok {
		return v
	}
	e.inlineMemo[fn] = false // recursion guard
	ok := len(fn.Blocks) == 1 && len(fn.Blocks[0].Instrs) <= 60
	if ok {
		for _, in := range fn.Blocks[0].Instrs {
			switch x := in.(type) {
			case *ssa.Go, *ssa.Defer, *ssa.RunDefers, *ssa.Select, *ssa.Send, *ssa.Panic:
				ok = false
			case *ssa.UnOp:
				if x.Op == token.ARROW {
					ok = false
				}
			}
		}
	}
	e.inlineMemo[fn] = ok
	return ok
}

func (fc *FnCtx) inline(callee *ssa.Function, args []Val, binds []Val, pos token.Pos, resT types.Type) Val {
	fc.inlineDepth++
	defer func() { fc.inlineDepth-- }()
	// save and clear the callee's value bindings (re-entrancy)
	saved := map[ssa.Value]Val{}
	record := func(v ssa.Value) {
		if old, ok := fc.vals[v]; ok {
			saved[v] = old
			delete(fc.vals, v)
		}
	}
	for _, p := range callee.Params {
		record(p)
	}
	for _, fv := range callee.FreeVars {
		record(fv)
	}
	b := callee.Blocks[0]
	for _, in := range b.Instrs {
		if v, ok := in.(ssa.Value); ok {
			record(v)
		}
	}
	for i, p := range callee.Params {
		fc.vals[p] = fc.coerce(args[i], p.Type())
	}
	for i, fv := range callee.FreeVars {
		if i < len(binds) {
			fc.vals[fv] = binds[i]
		} else {
			fc.vals[fv] = fc.freshValWF("fv", fv.Type())
		}
	}
	var result Val
	savedInstr := fc.curInstr
	for i, in := range b.Instrs {
		if ret, ok := in.(*ssa.Return); ok {
			var L []string
			sig := callee.Signature.Results()
			for k, r := range ret.Results {
				L = append(L, fc.coerce(fc.operand(r), sig.At(k).Type()).L...)
			}
			result = Val{T: resT, L: L}
			break
		}
		fc.instr(b, i, in)
	}
	fc.curInstr = savedInstr
	// restore
	for _, p := range callee.Params {
		delete(fc.vals, p)
	}
	for _, in := range b.Instrs {
		if v, ok := in.(ssa.Value); ok {
			delete(fc.vals, v)
		}
	}
	for v, old := range saved {
		fc.vals[v] = old
	}
	return result
}

// ---------------------------------------------------------------------------
// interface method invocation

func (fc *FnCtx) doInvoke(cc *ssa.CallCommon, args []Val, pos token.Pos, resT types.Type) Val {
	recv := fc.operand(cc.Value)
	it := cc.Value.Type()
	mname := cc.Method.Name()
	if fc.specDepth > 0 && len(args) == 0 && cc.Signature().Results().Len() == 1 {
		// inside a specification-level method evaluation (a wrapper type forwarding to an embedded interface):
		// do not expand further; the value is an uninterpreted function of the embedded value (deterministic, otherwise
		// unconstrained: contracts exclude wrapper types where it matters)
		ls := layout(resT)
		out := Val{T: resT, L: make([]string, len(ls))}
		for k, lf := range ls {
			fname := qsym(fmt.Sprintf("nested!%s!%s!%d", typeKey(it), mname, k))
			fc.declareFunOnce(fname, "("+SortTag+" (_ BitVec 64)) "+lf.Sort)
			out.L[k] = app(fname, recv.L[0], recv.L[1])
		}
		return out
	}
	fc.oblige("nil", "invoke", not(eq(recv.L[0], bvLit(0, 16))), pos, "method call on nil interface")
	ikey := fc.eng.ifaceMethodKey(it, mname)
	anchor := "call " + strings.TrimPrefix(shortCallee(ikey), fc.pkg.Name()+".")
	fc.anchorArgs = append([]Val{recv}, args...)
	fc.anchorBefore(anchor, pos)
	r := fc.doInvoke2(cc, recv, it, mname, ikey, args, pos, resT)
	fc.anchorArgs = append([]Val{recv}, args...)
	fc.anchorRes = &r
	fc.anchorAfter(anchor, pos)
	fc.anchorRes = nil
	return r
}

func (fc *FnCtx) doInvoke2(cc *ssa.CallCommon, recv Val, it types.Type, mname, ikey string, args []Val, pos token.Pos, resT types.Type) Val {

	if r, ok := fc.specialInvoke(cc, recv, args, pos, resT); ok {
		return r
	}
	// declared contract on the interface method itself
	if c := fc.eng.contracts[ikey]; c != nil {
		return fc.applyIfaceContract(c, cc, recv, args, pos, resT, shortCallee(ikey))
	}
	// dispatch over known implementers
	iface := it.Underlying().(*types.Interface)
	pre := fc.cur
	ns := newNameSet()
	type cand struct {
		t  types.Type
		fn *ssa.Function
	}
	var cands []cand
	for _, kt := range fc.eng.knownTypes() {
		if !types.Implements(kt, iface) {
			continue
		}
		sel := fc.eng.prog.MethodSets.MethodSet(kt).Lookup(cc.Method.Pkg(), mname)
		if sel == nil {
			continue
		}
		fn := fc.eng.prog.MethodValue(sel)
		if fn == nil {
			continue
		}
		cands = append(cands, cand{kt, fn})
		ns.AddAll(fc.eng.summary(fn))
	}
	sealed := fc.eng.sealedIface(iface)
	fw := newNameSet()
	if !sealed {
		foreignWrites(cc.Signature(), fw)
		ns.AddAll(fw)
		fc.noteTrusted("foreign implementations of " + ikey + ": write only into []byte arguments, results unconstrained")
	}
	post := pre.havocked(ns)
	// a name changes only if the dynamic type's implementation may write it
	candSums := make([]*NameSet, len(cands))
	candConds := make([]string, len(cands))
	var knownTags []string
	for i, cd := range cands {
		candSums[i] = fc.eng.summary(cd.fn)
		candConds[i] = eq(recv.L[0], fc.tagOf(cd.t))
		knownTags = append(knownTags, candConds[i])
	}
	foreignCond := not(or(knownTags...))
	post.havocCond = func(name string) string {
		var cs []string
		for i := range cands {
			if candSums[i].Has(name) {
				cs = append(cs, candConds[i])
			}
		}
		if !sealed && fw.Has(name) {
			cs = append(cs, foreignCond)
		}
		return or(cs...)
	}
	fc.cur = post
	res := fc.freshValWF("r_"+mname, resT)
	var known []string
	// pure straight-line implementations first: the result is a case-split term over the dynamic type
	// (zero-argument getters only; two calls on the same receiver and heap yield syntactically equal terms)
	isPure := make([]bool, len(cands))
	if len(args) == 0 {
		for i, cd := range cands {
			key := fc.eng.fnName(cd.fn)
			if fc.eng.contracts[key] != nil {
				continue
			}
			if fc.eng.inlineable(cd.fn) && fc.eng.summary(cd.fn).empty() && fc.inlineDepth < 4 {
				isPure[i] = true
			}
		}
		anyPure := false
		for _, p := range isPure {
			anyPure = anyPure || p
		}
		if anyPure {
			ls := layout(resT)
			base := Val{T: resT, L: make([]string, len(ls))}
			copy(base.L, res.L)
			for i, cd := range cands {
				if !isPure[i] {
					continue
				}
				key := fc.eng.fnName(cd.fn)
				cond := eq(recv.L[0], fc.tagOf(cd.t))
				rv := fc.unboxIface(pre, recv, cd.t)
				sub := pre.derive()
				sub.assume(cond)
				fc.cur = sub
				nob := len(fc.obls)
				fc.specDepth++
				r := fc.inline(cd.fn, []Val{rv}, nil, pos, resT)
				fc.specDepth--
				// panic-freedom of the implementation is its own obligation, not this call site's
				fc.obls = fc.obls[:nob]
				fc.noteTrusted("implementation " + key + " assumed panic-free under its implicit precondition (non-nil receiver)")
				fc.cur = post
				for k := range r.L {
					base.L[k] = ite(cond, r.L[k], base.L[k])
				}
			}
			res = fc.nameVal(fc.fresh("disp_"+mname), base)
			post.assume(fc.wfFacts(res))
		}
	}
	for i, cd := range cands {
		cond := eq(recv.L[0], fc.tagOf(cd.t))
		known = append(known, cond)
		if isPure[i] {
			continue
		}
		key := fc.eng.fnName(cd.fn)
		rv := fc.unboxIface(pre, recv, cd.t)
		cargs := append([]Val{rv}, args...)
		if c := fc.eng.contracts[key]; c != nil {
			env := &Env{fc: fc, pkg: cd.fn.Pkg.Pkg, vars: map[string]Val{}, bound: map[string]Val{}}
			for i, p := range cd.fn.Params {
				if i < len(cargs) {
					env.vars[p.Name()] = fc.coerce(cargs[i], p.Type())
				}
			}
			env.resName = c.Results
			if len(env.resName) == 0 {
				rs := cd.fn.Signature.Results()
				for i := 0; i < rs.Len(); i++ {
					env.resName = append(env.resName, rs.At(i).Name())
				}
			}
			env.st, env.old = pre, pre
			if sealed {
				for i, r := range c.Requires {
					fc.obligeAt(pre, "pre", fmt.Sprintf("%s!r%d", shortCallee(key), i+1), implies(cond, env.evalBool(r)), pos, "precondition of "+key)
				}
			} else {
				// dispatch through an interface that foreign code can implement (io.Closer, io.ReaderAt, ...):
				// an in-repo object that reached it is assumed to be a well-formed instance (its method's precondition
				// is a well-formedness predicate of the receiver); listed in the trusted base
				fc.noteTrusted("objects reaching " + ikey + " are well-formed instances: precondition of " + key + " assumed")
			}
			env.st, env.old = post, pre
			env.results = splitResults(res, cd.fn.Signature.Results())
			for ei, e := range c.Ensures {
				if fc.skipEnsures(c, ei) {
					continue
				}
				post.assume(implies(cond, env.evalBool(e)))
			}
			continue
		}
		if fc.eng.inlineable(cd.fn) && fc.eng.summary(cd.fn).empty() && fc.inlineDepth < 4 {
			// pure straight-line method with arguments: inline under the case condition
			sub := pre.derive()
			sub.assume(cond)
			fc.cur = sub
			nob := len(fc.obls)
			fc.specDepth++
			r := fc.inline(cd.fn, cargs, nil, pos, resT)
			fc.specDepth--
			fc.obls = fc.obls[:nob]
			fc.noteTrusted("implementation " + key + " assumed panic-free under its implicit precondition (non-nil receiver)")
			fc.cur = post
			var eqs []string
			for k := range r.L {
				eqs = append(eqs, eq(res.L[k], r.L[k]))
			}
			post.assume(implies(cond, and(eqs...)))
			continue
		}
		fc.noteTrusted("uncontracted implementation " + key + ": results unconstrained")
	}
	if sealed && len(known) > 0 {
		// a non-nil value of a sealed interface has one of the known dynamic types
		post.assume(or(known...))
	}
	return res
}

func (ns *NameSet) empty() bool { return !ns.All && len(ns.Names) == 0 }

func (fc *FnCtx) applyIfaceContract(c *Contract, cc *ssa.CallCommon, recv Val, args []Val, pos token.Pos, resT types.Type, short string) Val {
	env := &Env{fc: fc, pkg: fc.eng.pkgOfContract(c), vars: map[string]Val{}, bound: map[string]Val{}}
	env.vars["self"] = recv
	sig := cc.Signature()
	for i := 0; i < sig.Params().Len() && i < len(args); i++ {
		n := sig.Params().At(i).Name()
		if n == "" || n == "_" {
			n = fmt.Sprintf("arg%d", i)
		}
		env.vars[n] = fc.coerce(args[i], sig.Params().At(i).Type())
		env.vars[fmt.Sprintf("arg%d", i)] = env.vars[n]
	}
	env.resName = c.Results
	if len(env.resName) == 0 {
		for i := 0; i < sig.Results().Len(); i++ {
			env.resName = append(env.resName, sig.Results().At(i).Name())
		}
	}
	pre := fc.cur
	env.st, env.old = pre, pre
	for i, r := range c.Requires {
		fc.oblige("pre", fmt.Sprintf("%s!r%d", short, i+1), env.evalBool(r), pos, "precondition of "+short+": "+c.RequiresSrc[i])
	}
	fc.noteTrusted("interface method contract (assumed for every implementation): " + c.Func)
	ns := newNameSet()
	if c.HasModifies {
		for _, item := range c.Modifies {
			switch {
			case item == "bytes":
				ns.Add("E|uint8|0")
			case item == "all":
				ns.All = true
			case strings.HasPrefix(item, "ghost."):
				e2ghostNames(strings.TrimPrefix(item, "ghost."), ns)
			case strings.HasPrefix(item, "elems "):
				e, err := parseExprSrc(strings.TrimPrefix(item, "elems "))
				if err != nil {
					userErr("modifies item %s: %v", item, err)
				}
				t := env.resolveType(e)
				for k := range layout(t) {
					ns.Add(fmt.Sprintf("E|%s|%d", typeKey(t), k))
				}
			default:
				fc.eng.modifiesItemNames(env, item, ns)
			}
		}
	} else {
		foreignWrites(sig, ns)
	}
	post := pre.havocked(ns)
	fc.cur = post
	res := fc.freshValWF("r_"+short, resT)
	env.st, env.old = post, pre
	env.results = splitResults(res, sig.Results())
	for ei, e := range c.Ensures {
		if fc.skipEnsures(c, ei) {
			continue
		}
		post.assume(env.evalBool(e))
	}
	return res
}

// ---------------------------------------------------------------------------
// builtins

func (fc *FnCtx) doBuiltin(b *ssa.Builtin, cc *ssa.CallCommon, args []Val, pos token.Pos, resT types.Type) Val {
	if b.Name() == "copy" || b.Name() == "append" || b.Name() == "close" {
		fc.anchorArgs = args
		fc.anchorBefore("call "+b.Name(), pos)
		r := fc.doBuiltin2(b, cc, args, pos, resT)
		fc.anchorArgs = args
		fc.anchorRes = &r
		fc.anchorAfter("call "+b.Name(), pos)
		fc.anchorRes = nil
		return r
	}
	return fc.doBuiltin2(b, cc, args, pos, resT)
}

func (fc *FnCtx) doBuiltin2(b *ssa.Builtin, cc *ssa.CallCommon, args []Val, pos token.Pos, resT types.Type) Val {
	switch b.Name() {
	case "len", "cap":
		v := args[0]
		switch u := v.T.Underlying().(type) {
		case *types.Slice:
			if b.Name() == "len" {
				return Val{T: resT, L: []string{v.L[2]}}
			}
			return Val{T: resT, L: []string{v.L[3]}}
		case *types.Basic:
			return Val{T: resT, L: []string{app("strlen", v.L[0])}}
		case *types.Map:
			return Val{T: resT, L: []string{fc.mapLen(fc.cur, v)}}
		case *types.Pointer:
			if at, ok := u.Elem().Underlying().(*types.Array); ok {
				return Val{T: resT, L: []string{bvLit(uint64(at.Len()), 64)}}
			}
		case *types.Array:
			return Val{T: resT, L: []string{bvLit(uint64(u.Len()), 64)}}
		case *types.Chan:
			// len/cap of a nil channel are 0; otherwise only non-negativity is known (cap is a function of the channel)
			var r Val
			if b.Name() == "cap" {
				fc.declareFunOnce("chancap", "((_ BitVec 64)) (_ BitVec 64)")
				r = Val{T: resT, L: []string{app("chancap", v.L[0])}}
			} else {
				r = fc.freshVal("chanlen", resT)
			}
			fc.cur.assume(and(app("bvsge", r.L[0], bvLit(0, 64)), implies(eq(v.L[0], bvLit(0, 64)), eq(r.L[0], bvLit(0, 64)))))
			return r
		}
	case "append":
		return fc.doAppend(args, pos, resT)
	case "copy":
		dst, src := args[0], args[1]
		var slen string
		if isStringType(src.T) {
			slen = app("strlen", src.L[0])
		} else {
			slen = src.L[2]
		}
		n := ite(app("bvslt", dst.L[2], slen), dst.L[2], slen)
		et := dst.T.Underlying().(*types.Slice).Elem()
		fc.copyElems(et, dst, src, n)
		return Val{T: resT, L: []string{n}}
	case "delete":
		fc.mapDelete(args[0], args[1])
		return Val{T: resT}
	case "close":
		fc.chanClose(args[0], pos)
		return Val{T: resT}
	case "print", "println":
		return Val{T: resT}
	case "min", "max":
		if w, signed, ok := isIntType(args[0].T); ok {
			_ = w
			r := args[0].L[0]
			for _, a := range args[1:] {
				var c string
				lt, gt := "bvult", "bvugt"
				if signed {
					lt, gt = "bvslt", "bvsgt"
				}
				if b.Name() == "min" {
					c = app(lt, a.L[0], r)
				} else {
					c = app(gt, a.L[0], r)
				}
				r = ite(c, a.L[0], r)
			}
			return Val{T: resT, L: []string{r}}
		}
	case "ssa:wrapnilchk":
		return args[0]
	}
	fc.unsup("builtin " + b.Name())
	fc.havocAll()
	return fc.freshValWF("builtin", resT)
}

func (fc *FnCtx) doAppend(args []Val, pos token.Pos, resT types.Type) Val {
	s := args[0]
	t := args[1]
	et := s.T.Underlying().(*types.Slice).Elem()
	var tlen string
	if isStringType(t.T) {
		tlen = app("strlen", t.L[0])
	} else {
		tlen = t.L[2]
	}
	base, off, ln, cp := fc.sliceParts(s)
	newlen := fc.define(fc.fresh("applen"), bvSort(64), app("bvadd", ln, tlen))
	fits := fc.define(fc.fresh("appfits"), SortBool, app("bvsle", newlen, cp))
	esz := uint64(fc.eng.sizes.Sizeof(et))
	if esz == 0 {
		esz = 1
	}
	// growth allocation: Go grows to at most 2x+something; we bound the fresh capacity by 2*newlen+64 elements
	ncap := fc.declareFresh("appcap", bvSort(64))
	fc.cur.assume(and(app("bvsle", newlen, ncap), app("bvsle", ncap, app("bvadd", app("bvmul", newlen, bvLit(2, 64)), bvLit(64, 64))), app("bvsle", ncap, maxCapLit)))
	if fc.c != nil && fc.c.AllocBound != nil {
		g := implies(not(fits), "true")
		_ = g
		saved := fc.cur
		st := fc.cur.derive()
		st.assume(not(fits))
		fc.cur = st
		// growth allocates at most (2*newlen+64) elements
		fc.allocObligationNoAssume(pos, app("bvmul", app("bvadd", app("bvshl", newlen, bvLit(1, 64)), bvLit(64, 64)), bvLit(esz, 64)), "append")
		fc.cur = saved
	}
	nref := fc.allocRef()
	rbase := ite(fits, base, nref)
	roff := ite(fits, off, bvLit(0, 64))
	if fc.appendExact(et, t, tlen) {
		// the fresh array is laid out at the same (model-level) offset as the old slice: see appendElems
		roff = off
	}
	rcap := ite(fits, cp, ncap)
	res := Val{T: resT, L: []string{rbase, roff, newlen, rcap}}
	res = fc.nameVal(fc.fresh("app"), res)
	fc.appendNewRef = nref
	fc.appendElems(et, s, t, tlen, res, fits)
	return res
}

func (fc *FnCtx) allocObligationNoAssume(pos token.Pos, bytes string, what string) {
	env := fc.contractEnv(fc.cur, fc.entry)
	bound := env.eval(fc.c.AllocBound)
	var b string
	if bound.C != nil {
		b = fc.constOfType(bound.C, types.Typ[types.Int]).L[0]
	} else {
		w, _, _ := isIntType(bound.T)
		b = fc.convInt(bound.L[0], w, false, 64)
	}
	fc.obligeAt(fc.cur, "alloc", what, app("bvule", bytes, b), pos, "allocation exceeds the declared bound")
}

// appendElems models the contents of the result of append.
// Contents: result[0:len(s)] == s[0:len(s)], result[len(s)+j] == t[j]  (quantified axioms, only in content mode).
func (fc *FnCtx) appendElems(et types.Type, s, t Val, tlen string, res Val, fits string) {
	if ptrIsThin(et) {
		// struct elements live in the struct heap at elt(base, idx)
		n, isLit := litU64(tlen)
		if !isLit || n > 4 || isStringType(t.T) || !isStruct(et) {
			ns := newNameSet()
			fc.eng.objectNames(et, ns)
			fc.cur = fc.cur.havocked(ns)
			return
		}
		// values being appended (read before any store)
		var vals []Val
		for j := uint64(0); j < n; j++ {
			src := fc.eltRefNamed(t.L[0], app("bvadd", t.L[1], bvLit(j, 64)))
			vals = append(vals, fc.loadAt(fc.cur, et, src))
		}
		// reallocation: the fresh backing array starts as a copy of the old elements. The cells of a fresh
		// array have no prior observers, so this is stated as a fact about the current heap (no frame is lost).
		ns := newNameSet()
		fc.eng.objectNames(et, ns)
		i := qsym(fc.fresh("qi"))
		var copies []string
		nameSorts := map[string]string{}
		fc.eng.objectNameSorts(et, nameSorts)
		for _, name := range ns.Sorted() {
			srt := nameSorts[name]
			if srt == "" {
				continue
			}
			arr := fc.cur.get(name, srt)
			dst := app("select", arr, app("elt", fc.appendNewRef, i))
			srcc := app("select", arr, app("elt", s.L[0], app("bvadd", s.L[1], i)))
			copies = append(copies, fmt.Sprintf("(forall ((%s (_ BitVec 64))) (! (=> (bvult %s %s) (= %s %s)) :pattern (%s)))", i, i, s.L[2], dst, srcc, dst))
		}
		if len(copies) > 0 {
			fc.hasQuant = true
			fc.cur.assume(implies(not(fits), and(copies...)))
		}
		for j := uint64(0); j < n; j++ {
			dst := fc.eltRefNamed(res.L[0], app("bvadd", res.L[1], app("bvadd", s.L[2], bvLit(j, 64))))
			fc.storeAt(fc.cur, et, dst, vals[j])
		}
		return
	}
	if fc.appendExact(et, t, tlen) {
		// append(s, v1..vn) with a literal n, element type other than byte: exact contents.
		//   in place:   the array of s with the n cells behind len(s) overwritten (quantifier-free)
		//   reallocated: a fresh array fr that agrees with the old one on the cells of s (one quantified fact with the
		//                pattern (select fr p); the result keeps the model-level offset of s), then the n stores.
		//                Cells of the fresh array outside s and the appended values stay unconstrained.
		n, _ := litU64(tlen)
		for k, lf := range layout(et) {
			name := fmt.Sprintf("E|%s|%d", typeKey(et), k)
			inner := arraySort(bvSort(64), lf.Sort)
			srt := arraySort(SortRef, inner)
			old := fc.cur.get(name, srt)
			oldArr := app("select", old, s.L[0])
			fr := fc.declareFresh("appelems", inner)
			pv := qsym(fc.fresh("qp"))
			fc.hasQuant = true
			fc.cur.assume(implies(not(fits), fmt.Sprintf("(forall ((%s (_ BitVec 64))) (! (=> (bvult (bvsub %s %s) %s) (= (select %s %s) (select %s %s))) :pattern ((select %s %s))))",
				pv, pv, s.L[1], s.L[2], fr, pv, oldArr, pv, fr, pv)))
			inPlace, fresh := oldArr, fr
			for j := uint64(0); j < n; j++ {
				v := app("select", app("select", old, t.L[0]), app("bvadd", t.L[1], bvLit(j, 64)))
				idx := app("bvadd", s.L[1], app("bvadd", s.L[2], bvLit(j, 64)))
				inPlace = app("store", inPlace, idx, v)
				fresh = app("store", fresh, idx, v)
			}
			na := fc.define(fc.fresh("apparr"), inner, ite(fits, inPlace, fresh))
			fc.cur.set(name, srt, app("store", old, res.L[0], na))
		}
		return
	}
	for k, lf := range layout(et) {
		name := fmt.Sprintf("E|%s|%d", typeKey(et), k)
		inner := arraySort(bvSort(64), lf.Sort)
		srt := arraySort(SortRef, inner)
		old := fc.cur.get(name, srt)
		fr := fc.declareFresh("appelems", inner)
		fc.cur.set(name, srt, app("store", old, res.L[0], fr))
		if (fc.contentOn() && typeKey(et) == "uint8") || (typeKey(et) != "uint8" && !isStringType(t.T)) {
			// bytes: only in content mode; other element types (append(xs, ys...)): always
			fc.hasQuant = true
			oldArr := app("select", old, s.L[0])
			// Quantified over the absolute cell position p (pattern (select fr p)) so that E-matching does not
			// depend on the shape of index arithmetic. Prefix (when appending in place: everything below the
			// old length) preserved; then the appended part.
			pv := qsym(fc.fresh("qp"))
			rel := app("bvsub", pv, res.L[1])
			rel2 := app("bvsub", rel, s.L[2])
			var src string
			if isStringType(t.T) {
				src = app("strat", t.L[0], rel2)
			} else {
				src = app("select", app("select", old, t.L[0]), app("bvadd", t.L[1], rel2))
			}
			ax := fmt.Sprintf("(forall ((%s (_ BitVec 64))) (! (and (=> (bvult %s %s) (= (select %s %s) (select %s (bvadd %s %s)))) (=> (bvult %s %s) (= (select %s %s) %s))) :pattern ((select %s %s))))",
				pv, rel, s.L[2], fr, pv, oldArr, s.L[1], rel, rel2, tlen, fr, pv, src, fr, pv)
			fc.cur.assume(ax)
		}
	}
}

func (fc *FnCtx) copyElems(et types.Type, dst, src Val, n string) {
	if ptrIsThin(et) {
		ns := newNameSet()
		fc.eng.objectNames(et, ns)
		fc.cur = fc.cur.havocked(ns)
		return
	}
	precise := fc.contentOn() || typeKey(et) != "uint8"
	if isStringType(src.T) {
		precise = false
	}
	for k, lf := range layout(et) {
		name := fmt.Sprintf("E|%s|%d", typeKey(et), k)
		inner := arraySort(bvSort(64), lf.Sort)
		srt := arraySort(SortRef, inner)
		old := fc.cur.get(name, srt)
		fr := fc.declareFresh("copyelems", inner)
		fc.cur.set(name, srt, app("store", old, dst.L[0], fr))
		if !precise {
			continue
		}
		// memmove semantics: the n copied cells take the OLD source values, every other cell of dst's array is unchanged
		fc.hasQuant = true
		i := qsym(fc.fresh("qc"))
		oldDst := app("select", old, dst.L[0])
		oldSrc := app("select", old, src.L[0])
		rel := app("bvsub", i, dst.L[1]) // index relative to dst's start
		inRange := and(app("bvuge", i, dst.L[1]), app("bvult", rel, n))
		body := ite(inRange, app("select", oldSrc, app("bvadd", src.L[1], rel)), app("select", oldDst, i))
		ax := fmt.Sprintf("(forall ((%s (_ BitVec 64))) (! (= (select %s %s) %s) :pattern ((select %s %s))))", i, fr, i, body, fr, i)
		fc.cur.assume(ax)
	}
}

// ---------------------------------------------------------------------------
// special-cased library calls

func (fc *FnCtx) specialCall(callee *ssa.Function, args []Val, pos token.Pos, resT types.Type) (Val, bool) {
	name := callee.String()
	switch name {
	case "(*sync.Mutex).Lock", "(*sync.Mutex).Unlock", "(*sync.RWMutex).Lock", "(*sync.RWMutex).Unlock",
		"(*sync.RWMutex).RLock", "(*sync.RWMutex).RUnlock":
		fc.noteTrusted("sync.Mutex/RWMutex provide mutual exclusion")
		return fc.lockOp(callee.Name(), args[0], pos), true
	case "(*sync.WaitGroup).Add", "(*sync.WaitGroup).Done", "(*sync.WaitGroup).Wait":
		fc.noteTrusted("sync.WaitGroup: Wait returns only when the counter is zero")
		return Val{T: resT}, true
	case "errors.New", "fmt.Errorf":
		fc.noteTrusted(name + " returns a fresh non-nil error")
		r := fc.freshValWF("err", resT)
		ref := fc.allocRef()
		fc.cur.assume(and(not(eq(r.L[0], bvLit(0, 16))), app("bvuge", r.L[0], bvLit(foreignTagBase, 16)), app("bvult", r.L[0], bvLit(foreignTagBase+16, 16)), eq(r.L[1], ref)))
		fc.declareFunOnce("unw_tag", "("+SortTag+" (_ BitVec 64)) "+SortTag)
		fc.declareFunOnce("unw_pay", "("+SortTag+" (_ BitVec 64)) (_ BitVec 64)")
		if name == "fmt.Errorf" && fc.errorfWraps(r, args) {
			// unwrap relation set by errorfWraps
		} else {
			// no %w verb: the new error wraps nothing
			fc.cur.assume(eq(app("unw_tag", r.L[0], r.L[1]), bvLit(0, 16)))
		}
		return r, true
	case "errors.Is":
		fc.noteTrusted("errors.Is follows the modelled unwrap relation")
		return boolVal(fc.errorsIs(args[0], args[1])), true
	case "errors.As":
		// errors.As(err, &target) for a target of a concrete type T: true iff err or one of up to three unwrap steps has
		// dynamic type T; the first such value is stored in target (implementations of the optional As method are not modelled)
		if call, ok := fc.curInstr.(*ssa.Call); ok && len(call.Call.Args) == 2 {
			if mi, ok := call.Call.Args[1].(*ssa.MakeInterface); ok {
				if pt, ok := mi.X.Type().Underlying().(*types.Pointer); ok && !isInterface(pt.Elem()) {
					fc.noteTrusted("errors.As follows the modelled unwrap relation (no custom As methods)")
					fc.declareFunOnce("unw_tag", "("+SortTag+" (_ BitVec 64)) "+SortTag)
					fc.declareFunOnce("unw_pay", "("+SortTag+" (_ BitVec 64)) (_ BitVec 64)")
					tgt := pt.Elem()
					want := fc.tagOf(tgt)
					ptr := fc.operand(mi.X)
					old := fc.loadPtr(fc.cur, ptr)
					tag, pay := args[0].L[0], args[0].L[1]
					nonnil := "true"
					found := "false"
					val := old
					type step struct {
						c string
						v Val
					}
					var steps []step
					for i := 0; i < 4; i++ {
						c := and(nonnil, eq(tag, want))
						steps = append(steps, step{c, fc.unboxIface(fc.cur, Val{T: args[0].T, L: []string{tag, pay}}, tgt)})
						nonnil = and(nonnil, not(eq(tag, bvLit(0, 16))), not(eq(tag, want)))
						tag, pay = app("unw_tag", tag, pay), app("unw_pay", tag, pay)
					}
					for i := len(steps) - 1; i >= 0; i-- {
						nv := Val{T: tgt, L: make([]string, len(val.L))}
						for k := range val.L {
							nv.L[k] = ite(steps[i].c, steps[i].v.L[k], val.L[k])
						}
						val = nv
						found = or(steps[i].c, found)
					}
					fc.storePtr(fc.cur, ptr, val)
					return boolVal(fc.define(fc.fresh("errorsAs"), SortBool, found)), true
				}
			}
		}
	case "github.com/pkg/sftp.debug":
		return Val{T: resT}, true
	case "sync/atomic.AddUint32", "sync/atomic.AddUint64", "sync/atomic.AddInt32", "sync/atomic.AddInt64":
		fc.noteTrusted("sync/atomic.Add*: linearizable read-modify-write")
		fc.oblige("nil", "atomic", ptrNonNil(args[0]), pos, "atomic op on nil pointer")
		old := fc.loadPtr(fc.cur, args[0])
		nv := Val{T: old.T, L: []string{app("bvadd", old.L[0], args[1].L[0])}}
		// other goroutines may have changed the cell: the value read is arbitrary, the result is read+delta
		fr := fc.freshVal("atomic", old.T)
		nv = Val{T: old.T, L: []string{app("bvadd", fr.L[0], args[1].L[0])}}
		fc.storePtr(fc.cur, args[0], nv)
		return Val{T: resT, L: nv.L}, true
	}
	return Val{}, false
}

func (fc *FnCtx) specialInvoke(cc *ssa.CallCommon, recv Val, args []Val, pos token.Pos, resT types.Type) (Val, bool) {
	return Val{}, false
}

// sorted keys helper
func sortedKeys(m map[string]bool) []string {
	out := []string{}
	for k := range m {
		out = append(out, k)
	}
	sort.Strings(out)
	return out
}

func litU64(term string) (uint64, bool) {
	if strings.HasPrefix(term, "#x") && len(term) == 18 {
		var v uint64
		if _, err := fmt.Sscanf(term[2:], "%x", &v); err == nil {
			return v, true
		}
	}
	return 0, false
}

// eltRefNamed returns elt(base, idx) together with its inverse-function facts.
func (fc *FnCtx) eltRefNamed(base, idx string) string {
	r := fc.define(fc.fresh("elt"), SortRef, fc.eltRef(base, idx))
	fc.axiom(and(eq(app("elt_base", r), base), eq(app("elt_idx", r), idx), eq(app("sub_fid", r), bvLit(2, 16)), not(eq(r, bvLit(0, 64)))))
	return r
}

// isCancelFunc: v is the CancelFunc result of context.WithCancel / WithTimeout / WithDeadline.
func isCancelFunc(v ssa.Value) bool {
	// a value of the named type context.CancelFunc (e.g. a struct field holding the cancel function of a request)
	if n, ok := v.Type().(*types.Named); ok && n.Obj().Pkg() != nil && n.Obj().Pkg().Path() == "context" && n.Obj().Name() == "CancelFunc" {
		return true
	}
	ex, ok := v.(*ssa.Extract)
	if !ok {
		return false
	}
	call, ok := ex.Tuple.(*ssa.Call)
	if !ok {
		return false
	}
	f := call.Call.StaticCallee()
	if f == nil {
		return false
	}
	switch f.String() {
	case "context.WithCancel", "context.WithTimeout", "context.WithDeadline":
		return ex.Index == 1
	}
	return false
}

func (fc *FnCtx) contentOn() bool {
	if fc.eng.contentMode {
		return true
	}
	c := fc.c
	if c == nil || !c.Content {
		return false
	}
	return len(c.ContentProps) == 0 || fc.eng.curProp == "" || contains(c.ContentProps, fc.eng.curProp)
}

// skipEnsures: content postconditions of a callee are used only by callers verified in content mode
func (fc *FnCtx) skipEnsures(c *Contract, i int) bool {
	return i < len(c.EnsuresContent) && c.EnsuresContent[i] && !fc.contentOn()
}

// appendExact: append(s, v1..vn) gets the exact content model (see appendElems).
func (fc *FnCtx) appendExact(et types.Type, t Val, tlen string) bool {
	if ptrIsThin(et) || typeKey(et) == "uint8" || isStringType(t.T) {
		return false
	}
	n, isLit := litU64(tlen)
	return isLit && n <= 4
}
