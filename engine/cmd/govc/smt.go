package main

import (
	"fmt"
	"go/constant"
	"go/types"
	"regexp"
	"strings"
)

// Sorts are SMT-LIB sort strings.
const (
	SortBool = "Bool"
	SortStr  = "Str"
	SortRef  = "(_ BitVec 64)"
	SortTag  = "(_ BitVec 16)"
	SortFid  = "(_ BitVec 16)"
)

func bvSort(w int) string { return fmt.Sprintf("(_ BitVec %d)", w) }

func bvLit(v uint64, w int) string {
	if w == 64 {
		return fmt.Sprintf("#x%016x", v)
	}
	if w%4 == 0 {
		mask := uint64(1)<<uint(w) - 1
		return fmt.Sprintf("#x%0*x", w/4, v&mask)
	}
	mask := uint64(1)<<uint(w) - 1
	return fmt.Sprintf("(_ bv%d %d)", v&mask, w)
}

func app(op string, args ...string) string {
	// constant folding of 64-bit add/sub (keeps literal slice lengths literal)
	if len(args) == 2 && (op == "bvadd" || op == "bvsub") && len(args[0]) == 18 && len(args[1]) == 18 && strings.HasPrefix(args[0], "#x") && strings.HasPrefix(args[1], "#x") {
		var a, b uint64
		if _, err := fmt.Sscanf(args[0][2:], "%x", &a); err == nil {
			if _, err := fmt.Sscanf(args[1][2:], "%x", &b); err == nil {
				if op == "bvadd" {
					return bvLit(a+b, 64)
				}
				return bvLit(a-b, 64)
			}
		}
	}
	if len(args) == 2 && op == "bvadd" && args[1] == "#x0000000000000000" {
		return args[0]
	}
	return "(" + op + " " + strings.Join(args, " ") + ")"
}

func and(args ...string) string {
	var out []string
	for _, a := range args {
		if a == "true" {
			continue
		}
		if a == "false" {
			return "false"
		}
		out = append(out, a)
	}
	switch len(out) {
	case 0:
		return "true"
	case 1:
		return out[0]
	}
	return app("and", out...)
}

func or(args ...string) string {
	var out []string
	for _, a := range args {
		if a == "false" {
			continue
		}
		if a == "true" {
			return "true"
		}
		out = append(out, a)
	}
	switch len(out) {
	case 0:
		return "false"
	case 1:
		return out[0]
	}
	return app("or", out...)
}

func not(a string) string {
	if a == "true" {
		return "false"
	}
	if a == "false" {
		return "true"
	}
	return app("not", a)
}

func implies(a, b string) string {
	if a == "true" {
		return b
	}
	if a == "false" || b == "true" {
		return "true"
	}
	return app("=>", a, b)
}

func ite(c, a, b string) string {
	if c == "true" {
		return a
	}
	if c == "false" {
		return b
	}
	if a == b {
		return a
	}
	return app("ite", c, a, b)
}

func isLitTerm(a string) bool { return strings.HasPrefix(a, "#x") || strings.HasPrefix(a, "#b") }

func eq(a, b string) string {
	if a == b {
		return "true"
	}
	if isLitTerm(a) && isLitTerm(b) {
		return "false"
	}
	return app("=", a, b)
}

// Leaf describes one flattened SMT component of a Go value.
type Leaf struct {
	Sort string
	Name string // path name, for diagnostics and heap array names
}

// Val is a Go value flattened into SMT leaves.
type Val struct {
	T types.Type
	L []string
	C constant.Value // non-nil for untyped constants in contract expressions (then L is empty)
}

func isStruct(t types.Type) bool {
	_, ok := t.Underlying().(*types.Struct)
	return ok
}

func isArray(t types.Type) bool {
	_, ok := t.Underlying().(*types.Array)
	return ok
}

// ptrIsThin reports whether a pointer to elem is represented as a single Ref
// (pointee is a struct or array object) rather than a fat pointer.
func ptrIsThin(elem types.Type) bool {
	return isStruct(elem) || isArray(elem)
}

func intWidth(b *types.Basic) (w int, signed bool, ok bool) {
	switch b.Kind() {
	case types.Int8:
		return 8, true, true
	case types.Int16:
		return 16, true, true
	case types.Int32, types.UntypedRune:
		return 32, true, true
	case types.Int, types.Int64, types.UntypedInt:
		return 64, true, true
	case types.Uint8:
		return 8, false, true
	case types.Uint16:
		return 16, false, true
	case types.Uint32:
		return 32, false, true
	case types.Uint, types.Uint64, types.Uintptr:
		return 64, false, true
	}
	return 0, false, false
}

func isIntType(t types.Type) (w int, signed bool, ok bool) {
	b, isb := t.Underlying().(*types.Basic)
	if !isb {
		return 0, false, false
	}
	return intWidth(b)
}

func isStringType(t types.Type) bool {
	b, ok := t.Underlying().(*types.Basic)
	return ok && (b.Kind() == types.String || b.Kind() == types.UntypedString)
}

func isBoolType(t types.Type) bool {
	b, ok := t.Underlying().(*types.Basic)
	return ok && (b.Kind() == types.Bool || b.Kind() == types.UntypedBool)
}

func isInterface(t types.Type) bool {
	_, ok := t.Underlying().(*types.Interface)
	return ok
}

// layout returns the leaves of a Go type.
func layout(t types.Type) []Leaf {
	var out []Leaf
	layoutInto(t, "", &out)
	return out
}

func layoutInto(t types.Type, path string, out *[]Leaf) {
	switch u := t.Underlying().(type) {
	case *types.Basic:
		if w, _, ok := intWidth(u); ok {
			*out = append(*out, Leaf{bvSort(w), path})
			return
		}
		switch u.Kind() {
		case types.Bool, types.UntypedBool:
			*out = append(*out, Leaf{SortBool, path})
		case types.String, types.UntypedString:
			*out = append(*out, Leaf{SortStr, path})
		case types.Float32, types.Float64, types.UntypedFloat:
			*out = append(*out, Leaf{bvSort(64), path + ".float"})
		case types.UnsafePointer:
			*out = append(*out, Leaf{SortRef, path})
		case types.UntypedNil:
			*out = append(*out, Leaf{SortRef, path})
		case types.Invalid:
			// used for ssa "invalid" tuple parts; no leaves
		default:
			*out = append(*out, Leaf{bvSort(64), path + ".opaque"})
		}
	case *types.Pointer:
		if ptrIsThin(u.Elem()) {
			*out = append(*out, Leaf{SortRef, path})
		} else {
			*out = append(*out, Leaf{SortFid, path + ".fid"}, Leaf{SortRef, path + ".ref"}, Leaf{bvSort(64), path + ".idx"})
		}
	case *types.Map, *types.Chan, *types.Signature:
		*out = append(*out, Leaf{SortRef, path})
	case *types.Slice:
		*out = append(*out, Leaf{SortRef, path + ".base"}, Leaf{bvSort(64), path + ".off"}, Leaf{bvSort(64), path + ".len"}, Leaf{bvSort(64), path + ".cap"})
	case *types.Interface:
		*out = append(*out, Leaf{SortTag, path + ".tag"}, Leaf{bvSort(64), path + ".pay"})
	case *types.Struct:
		for i := 0; i < u.NumFields(); i++ {
			layoutInto(u.Field(i).Type(), path+"."+u.Field(i).Name(), out)
		}
	case *types.Tuple:
		for i := 0; i < u.Len(); i++ {
			layoutInto(u.At(i).Type(), fmt.Sprintf("%s#%d", path, i), out)
		}
	case *types.Array:
		// array values: a Ref to an immutable snapshot object
		*out = append(*out, Leaf{SortRef, path + ".arr"})
	case *types.TypeParam:
		*out = append(*out, Leaf{bvSort(64), path + ".tparam"})
	default:
		*out = append(*out, Leaf{bvSort(64), path + ".opaque"})
	}
}

func nLeaves(t types.Type) int { return len(layout(t)) }

// fieldRange returns the leaf offset and count of field i of struct type t.
func fieldRange(st *types.Struct, i int) (off, n int) {
	for j := 0; j < i; j++ {
		off += nLeaves(st.Field(j).Type())
	}
	return off, nLeaves(st.Field(i).Type())
}

func tupleRange(tp *types.Tuple, i int) (off, n int) {
	for j := 0; j < i; j++ {
		off += nLeaves(tp.At(j).Type())
	}
	return off, nLeaves(tp.At(i).Type())
}

func zeroOfSort(s string) string {
	switch s {
	case SortBool:
		return "false"
	case SortStr:
		return "str_empty"
	}
	var w int
	if _, err := fmt.Sscanf(s, "(_ BitVec %d)", &w); err == nil {
		return bvLit(0, w)
	}
	panic("zeroOfSort: " + s)
}

func sortWidth(s string) int {
	var w int
	if _, err := fmt.Sscanf(s, "(_ BitVec %d)", &w); err == nil {
		return w
	}
	return 0
}

func zeroVal(t types.Type) Val {
	ls := layout(t)
	v := Val{T: t, L: make([]string, len(ls))}
	for i, l := range ls {
		v.L[i] = zeroOfSort(l.Sort)
	}
	return v
}

// sanitize makes a string usable inside an SMT quoted symbol.
func sanitize(s string) string {
	s = strings.ReplaceAll(s, "|", "!")
	s = strings.ReplaceAll(s, "\\", "!")
	return s
}

func qsym(s string) string { return "|" + sanitize(s) + "|" }

var reAliasWords = regexp.MustCompile(`\b(byte|rune|any)\b`)

var typeKeyMemo = map[types.Type]string{}

func typeKey(t types.Type) string {
	if k, ok := typeKeyMemo[t]; ok {
		return k
	}
	s := types.TypeString(t, func(p *types.Package) string { return p.Name() })
	s = reAliasWords.ReplaceAllStringFunc(s, func(w string) string {
		switch w {
		case "byte":
			return "uint8"
		case "rune":
			return "int32"
		}
		return "interface{}"
	})
	typeKeyMemo[t] = s
	return s
}

// refLeaves reports, per leaf of layout(t), whether the leaf holds an object reference (an address of the modelled
// heap) as opposed to a number: thin pointers, the .ref of fat pointers, maps, channels, function values, slice
// bases, array snapshots. Interface payloads are not included (they may be numbers).
func refLeaves(t types.Type) []bool {
	var out []bool
	refLeavesInto(t, &out)
	return out
}

func refLeavesInto(t types.Type, out *[]bool) {
	switch u := t.Underlying().(type) {
	case *types.Basic:
		switch u.Kind() {
		case types.UnsafePointer, types.UntypedNil:
			*out = append(*out, true)
		case types.Invalid:
		default:
			*out = append(*out, false)
		}
	case *types.Pointer:
		if ptrIsThin(u.Elem()) {
			*out = append(*out, true)
		} else {
			*out = append(*out, false, true, false)
		}
	case *types.Map, *types.Chan, *types.Signature:
		*out = append(*out, true)
	case *types.Slice:
		*out = append(*out, true, false, false, false)
	case *types.Interface:
		*out = append(*out, false, false)
	case *types.Struct:
		for i := 0; i < u.NumFields(); i++ {
			refLeavesInto(u.Field(i).Type(), out)
		}
	case *types.Tuple:
		for i := 0; i < u.Len(); i++ {
			refLeavesInto(u.At(i).Type(), out)
		}
	case *types.Array:
		*out = append(*out, true)
	default:
		*out = append(*out, false)
	}
}
