package main

import (
	"bytes"
	"context"
	"fmt"
	"os"
	"os/exec"
	"strings"
	"sync"
	"time"
)

const prelude = `(declare-sort Str 0)
(declare-fun strlen (Str) (_ BitVec 64))
(declare-fun strat (Str (_ BitVec 64)) (_ BitVec 8))
(declare-const str_empty Str)
(assert (= (strlen str_empty) #x0000000000000000))
(declare-const allocbase (_ BitVec 64))
(assert (and (bvuge allocbase #x0000000100000000) (bvule allocbase #x4000000000000000)))
(declare-fun sub ((_ BitVec 16) (_ BitVec 64)) (_ BitVec 64))
(declare-fun sub_owner ((_ BitVec 64)) (_ BitVec 64))
(declare-fun sub_fid ((_ BitVec 64)) (_ BitVec 16))
(declare-fun elt ((_ BitVec 64) (_ BitVec 64)) (_ BitVec 64))
(declare-fun elt_base ((_ BitVec 64)) (_ BitVec 64))
(declare-fun elt_idx ((_ BitVec 64)) (_ BitVec 64))
(declare-fun strbox (Str) (_ BitVec 64))
(declare-fun strunbox ((_ BitVec 64)) Str)
`

// quantPrelude: injectivity of element / sub-object addresses for terms under quantifiers
// (for ground terms the same facts are asserted per term).
const quantPrelude = `(assert (forall ((b (_ BitVec 64)) (i (_ BitVec 64))) (! (and (= (elt_base (elt b i)) b) (= (elt_idx (elt b i)) i) (= (sub_fid (elt b i)) #x0002)) :pattern ((elt b i)))))
(assert (forall ((k (_ BitVec 16)) (r (_ BitVec 64))) (! (and (= (sub_owner (sub k r)) r) (= (sub_fid (sub k r)) k)) :pattern ((sub k r)))))
`

type SolveResult struct {
	Status  string // "unsat", "sat", "unknown", "timeout", "error"
	Backend string
	Ms      int64
	Output  string
	Model   string
}

func (o *Obligation) smt(forCvc5 bool, getModel bool) string {
	var b strings.Builder
	if getModel {
		b.WriteString("(set-option :produce-models true)\n")
	}
	if forCvc5 {
		b.WriteString("(set-logic ALL)\n")
	}
	b.WriteString(prelude)
	if o.Quant && !o.Cover {
		b.WriteString(quantPrelude)
	}
	for _, d := range o.fc.decls[:o.NDecl] {
		b.WriteString(d)
		b.WriteByte('\n')
	}
	fmt.Fprintf(&b, "(assert %s)\n", o.Guard)
	fmt.Fprintf(&b, "(assert (not %s))\n", o.Goal)
	b.WriteString("(check-sat)\n")
	if getModel {
		b.WriteString("(get-model)\n")
	}
	return b.String()
}

type solverSpec struct {
	name string
	args func(timeoutS int) []string
	cvc5 bool
}

var solvers = []solverSpec{
	{"z3-new", func(t int) []string { return []string{"z3-new", fmt.Sprintf("-T:%d", t), "-in"} }, false},
	{"z3", func(t int) []string { return []string{"z3", fmt.Sprintf("-T:%d", t), "-in"} }, false},
	{"cvc5", func(t int) []string {
		return []string{"cvc5", "--lang=smt2", fmt.Sprintf("--tlimit=%d", t*1000), "--enum-inst"}
	}, true},
}

func runSolver(ctx context.Context, s solverSpec, text string, timeoutS int) *SolveResult {
	start := time.Now()
	args := s.args(timeoutS)
	cctx, cancel := context.WithTimeout(ctx, time.Duration(timeoutS+2)*time.Second)
	defer cancel()
	cmd := exec.CommandContext(cctx, args[0], args[1:]...)
	cmd.Stdin = strings.NewReader(text)
	var out bytes.Buffer
	cmd.Stdout = &out
	cmd.Stderr = &out
	_ = cmd.Run()
	ms := time.Since(start).Milliseconds()
	o := out.String()
	first := strings.TrimSpace(strings.SplitN(o, "\n", 2)[0])
	res := &SolveResult{Backend: s.name, Ms: ms, Output: truncate(o, 4000)}
	switch first {
	case "unsat":
		res.Status = "unsat"
	case "sat":
		res.Status = "sat"
		if i := strings.Index(o, "\n"); i >= 0 {
			res.Model = o[i+1:]
		}
	case "unknown":
		res.Status = "unknown"
	case "timeout":
		res.Status = "timeout"
	default:
		if cctx.Err() != nil {
			res.Status = "timeout"
		} else {
			res.Status = "error"
		}
	}
	return res
}

// solve runs the portfolio: z3-new first with a short budget, then all three in parallel.
func (o *Obligation) solve(timeoutS int) *SolveResult {
	if o.Goal == "true" || o.Guard == "false" {
		if !o.Cover {
			return &SolveResult{Status: "unsat", Backend: "trivial"}
		}
	}
	if o.Kind == "anchor" {
		// structural: a contract clause whose program point is gone fails without consulting a solver
		return &SolveResult{Status: "sat", Backend: "structural", Output: o.Descr}
	}
	quick := 3
	if timeoutS < quick {
		quick = timeoutS
	}
	text := o.smt(false, false)
	if len(text) > 8<<20 {
		return &SolveResult{Status: "error", Backend: "none", Output: "VC larger than 8 MB"}
	}
	r := runSolver(context.Background(), solvers[0], text, quick)
	if r.Status == "unsat" || r.Status == "sat" {
		return r
	}
	if o.Cover && strings.Contains(text, "(forall ") {
		// Reachability guard with quantified facts in the path condition: solvers rarely answer "sat" under
		// quantifiers. Ask again with every universal fact replaced by its instances at 0..15. A "sat" here shows the
		// quantifier-free part of the path condition and those instances are consistent (what the guard is for:
		// contradictory preconditions and invariants); other answers fall through to the full query.
		rr := runSolver(context.Background(), solvers[0], relaxQuantifiersOpt(text, 16, true), 10)
		if rr.Status == "sat" {
			rr.Backend += " (universal facts instantiated at 0..15)"
			rr.Ms += r.Ms
			return rr
		}
	}
	ctx, cancel := context.WithCancel(context.Background())
	defer cancel()
	ch := make(chan *SolveResult, len(solvers))
	var wg sync.WaitGroup
	for _, s := range solvers {
		wg.Add(1)
		go func(s solverSpec) {
			defer wg.Done()
			t := text
			if s.cvc5 {
				t = o.smt(true, false)
			}
			ch <- runSolver(ctx, s, t, timeoutS)
		}(s)
	}
	go func() { wg.Wait(); close(ch) }()
	var last *SolveResult
	var total int64 = r.Ms
	for res := range ch {
		if res.Status == "unsat" || res.Status == "sat" {
			res.Ms += total
			return res
		}
		if last == nil || res.Status == "error" && last.Status != "error" {
			last = res
		}
		if res.Status != "error" {
			last = res
		}
	}
	return last
}

// explain re-runs a failing obligation and returns the model values of the named SSA values and parameters.
func (o *Obligation) explain(timeoutS int) string {
	var names []string
	for _, d := range o.fc.decls[:o.NDecl] {
		var name, sort string
		if strings.HasPrefix(d, "(define-fun |") || strings.HasPrefix(d, "(declare-const |") {
			rest := d[strings.Index(d, "|"):]
			end := strings.Index(rest[1:], "|") + 2
			name = rest[:end]
			tail := rest[end:]
			if strings.HasPrefix(d, "(define-fun") {
				if !strings.HasPrefix(tail, " () ") {
					continue
				}
				tail = tail[4:]
			} else {
				tail = strings.TrimSpace(tail)
			}
			if strings.HasPrefix(tail, "Bool") {
				sort = "Bool"
			} else if strings.HasPrefix(tail, "(_ BitVec") {
				sort = "BV"
			}
		}
		if sort == "" || strings.HasPrefix(name, "|g!") || strings.HasPrefix(name, "|edge!") {
			continue
		}
		names = append(names, name)
	}
	if len(names) > 1500 {
		names = names[:1500]
	}
	var b strings.Builder
	b.WriteString("(set-option :produce-models true)\n")
	b.WriteString(prelude)
	if o.Quant {
		b.WriteString(quantPrelude)
	}
	for _, d := range o.fc.decls[:o.NDecl] {
		b.WriteString(d)
		b.WriteByte('\n')
	}
	fmt.Fprintf(&b, "(assert %s)\n(assert (not %s))\n(check-sat)\n", o.Guard, o.Goal)
	for _, n := range names {
		fmt.Fprintf(&b, "(get-value (%s))\n", n)
	}
	r := runSolver(context.Background(), solvers[0], b.String(), timeoutS)
	return r.Output + r.Model
}

// model re-runs the obligation with model production on z3-new.
func (o *Obligation) model(timeoutS int) string {
	text := o.smt(false, true)
	r := runSolver(context.Background(), solvers[0], text, timeoutS)
	if r.Status == "sat" {
		return r.Model
	}
	return ""
}

func dumpSMT(o *Obligation, dir string) string {
	_ = os.MkdirAll(dir, 0o755)
	name := strings.NewReplacer("/", "_", " ", "_", "*", "", "(", "", ")", "", "$", "_").Replace(o.Name)
	p := fmt.Sprintf("%s/%s.smt2", dir, name)
	_ = os.WriteFile(p, []byte(o.smt(false, true)), 0o644)
	return p
}
