package main

import (
	"encoding/json"
	"flag"
	"fmt"
	"os"
	"regexp"
	"runtime/pprof"
	"sort"
	"strings"
	"sync"
	"time"

	"golang.org/x/tools/go/ssa"
)

func main() {
	if len(os.Args) < 2 {
		fmt.Fprintln(os.Stderr, "usage: govc verify|dump|vc|list ...")
		os.Exit(2)
	}
	if p := os.Getenv("GOVC_CPUPROFILE"); p != "" {
		f, _ := os.Create(p)
		pprof.StartCPUProfile(f)
		defer pprof.StopCPUProfile()
	}
	switch os.Args[1] {
	case "verify":
		rc := cmdVerify(os.Args[2:])
		pprof.StopCPUProfile()
		os.Exit(rc)
	case "dump":
		os.Exit(cmdDump(os.Args[2:]))
	case "list":
		os.Exit(cmdList(os.Args[2:]))
	case "check":
		os.Exit(cmdCheck(os.Args[2:]))
	case "summary":
		e, err := loadEngine("/repo")
		if err != nil {
			fmt.Fprintln(os.Stderr, err)
			os.Exit(2)
		}
		for _, n := range os.Args[2:] {
			if fn := e.funcs[n]; fn != nil {
				fmt.Printf("%s: %s\n", n, e.summary(fn))
			}
		}
	default:
		fmt.Fprintln(os.Stderr, "unknown command", os.Args[1])
		os.Exit(2)
	}
}

func cmdDump(args []string) int {
	fs := flag.NewFlagSet("dump", flag.ExitOnError)
	repo := fs.String("repo", "/repo", "repository root")
	fs.Parse(args)
	e, err := loadEngine(*repo)
	if err != nil {
		fmt.Fprintln(os.Stderr, err)
		return 2
	}
	for _, name := range fs.Args() {
		fn := e.funcs[name]
		if fn == nil {
			fmt.Fprintln(os.Stderr, "no function", name)
			continue
		}
		fn.WriteTo(os.Stdout)
	}
	return 0
}

func cmdList(args []string) int {
	fs := flag.NewFlagSet("list", flag.ExitOnError)
	repo := fs.String("repo", "/repo", "repository root")
	fs.Parse(args)
	e, err := loadEngine(*repo)
	if err != nil {
		fmt.Fprintln(os.Stderr, err)
		return 2
	}
	var names []string
	for n := range e.funcs {
		names = append(names, n)
	}
	sort.Strings(names)
	for _, n := range names {
		c := ""
		if e.contracts[n] != nil {
			c = " [contract]"
		} else if fn := e.funcs[n]; fn != nil && fn.Blocks != nil && e.dagInlineable(fn) {
			c = " [inlined at call sites: loop-free helper]"
		}
		fmt.Println(n + c)
	}
	return 0
}

// FnReport is the per-function outcome.
type FnReport struct {
	Fn          string        `json:"fn"`
	Props       []string      `json:"props"`
	Error       string        `json:"error,omitempty"`
	Unsupported []string      `json:"unsupported,omitempty"`
	Trusted     []string      `json:"trusted,omitempty"`
	Obls        []*OblReport  `json:"obligations"`
	TranslateMs int64         `json:"translate_ms"`
	obls        []*Obligation `json:"-"`
}

type OblReport struct {
	Name    string `json:"name"`
	Kind    string `json:"kind"`
	Pos     string `json:"pos"`
	Status  string `json:"status"` // discharged | failed | undecided | covered | vacuous
	Backend string `json:"backend"`
	Ms      int64  `json:"ms"`
	Descr   string `json:"descr,omitempty"`
	Model   string `json:"model,omitempty"`
	Output  string `json:"output,omitempty"`
	SMTFile string `json:"smt_file,omitempty"`
}

type verifyOpts struct {
	repo, prop, fnre, out, dump string
	timeout, jobs               int
	verbose, content, quiet     bool
	explain                     bool
}

type verifyResult struct {
	Reports  []*FnReport
	Total    int
	OK       int
	Failed   int
	Undec    int
	Vacuous  int
	LoadMs   int64
	SolverMs int64
	WallS    float64
	LoadErr  string
	eng      *Engine
}

func cmdVerify(args []string) int {
	fs := flag.NewFlagSet("verify", flag.ExitOnError)
	var o verifyOpts
	fs.StringVar(&o.repo, "repo", "/repo", "repository root")
	fs.StringVar(&o.prop, "prop", "", "property id (functions whose contract lists it)")
	fs.StringVar(&o.fnre, "fn", "", "regexp selecting functions by name (overrides -prop)")
	fs.IntVar(&o.timeout, "timeout", 10, "per-obligation solver timeout in seconds")
	fs.StringVar(&o.out, "json", "", "write a JSON report here")
	fs.StringVar(&o.dump, "dumpdir", "", "write failing/undecided SMT queries here")
	fs.BoolVar(&o.verbose, "v", false, "print every obligation")
	fs.IntVar(&o.jobs, "j", 16, "parallel solver jobs")
	fs.BoolVar(&o.content, "content", false, "byte-content axioms for append (T2)")
	fs.BoolVar(&o.explain, "explain", false, "print model values of SSA values for failed obligations")
	fs.Parse(args)
	res := runVerify(&o)
	if res.LoadErr != "" {
		return 2
	}
	if res.Failed+res.Undec+res.Vacuous > 0 {
		return 1
	}
	for _, rep := range res.Reports {
		if rep.Error != "" {
			return 1
		}
	}
	return 0
}

var explainMode bool

func runVerify(o *verifyOpts) *verifyResult {
	explainMode = o.explain
	repo, prop, fnre, timeout, out, dump, verbose, jobs, content := &o.repo, &o.prop, &o.fnre, &o.timeout, &o.out, &o.dump, &o.verbose, &o.jobs, &o.content
	t0 := time.Now()
	e, err := loadEngine(*repo)
	if err != nil {
		fmt.Fprintln(os.Stderr, "load:", err)
		return &verifyResult{LoadErr: err.Error()}
	}
	e.contentMode = *content
	e.curProp = *prop
	loadMs := time.Since(t0).Milliseconds()

	var names []string
	if *fnre != "" {
		re := regexp.MustCompile(*fnre)
		for n := range e.funcs {
			if re.MatchString(n) {
				names = append(names, n)
			}
		}
	} else {
		for n, c := range e.contracts {
			if (e.funcs[n] == nil && !c.IsLemma) || c.Trusted {
				continue
			}
			if *prop == "" || contains(c.Props, *prop) {
				names = append(names, n)
			} else if len(c.Props) > 0 && !c.IsLemma && !(c.Content && len(c.ContentProps) == 0) && e.inAnchorFiles(*prop, e.funcs[n]) {
				// (contracts that need the quantified byte-content mode unconditionally -- the encoders -- are checked under
				//  the properties they list only; the other properties' runs do not pay for that mode)
				// a function under contract (for some property) that lives in a file the property is anchored in is
				// part of what the property depends on: it is checked for this property too
				names = append(names, n)
			}
		}
	}
	if *fnre == "" && *prop != "" && os.Getenv("GOVC_NO_CLOSURE") == "" {
		names = e.callClosure(names)
	}
	sort.Strings(names)
	var reports []*FnReport
	for _, n := range names {
		fn := e.funcs[n]
		rep := &FnReport{Fn: n}
		if c := e.contracts[n]; c != nil {
			rep.Props = c.Props
		}
		ts := time.Now()
		var fc *FnCtx
		isLemma := fn == nil
		if isLemma {
			fc = e.newLemmaCtx(e.contracts[n])
		} else {
			fc = e.newFnCtx(fn)
		}
		func() {
			defer func() {
				if r := recover(); r != nil {
					rep.Error = fmt.Sprintf("internal error: %v", r)
					if os.Getenv("GOVC_PANIC") != "" {
						panic(r)
					}
				}
			}()
			var err error
			if isLemma {
				err = fc.TranslateLemma()
			} else {
				err = fc.Translate()
			}
			if err != nil {
				rep.Error = err.Error()
			}
		}()
		rep.TranslateMs = time.Since(ts).Milliseconds()
		rep.Unsupported = dedup(fc.unsupported)
		rep.Trusted = sortedKeys(fc.trustedUsed)
		rep.obls = fc.obls
		reports = append(reports, rep)
	}
	// solve
	type job struct {
		rep *FnReport
		o   *Obligation
		r   *OblReport
	}
	var js []job
	for _, rep := range reports {
		for _, o := range rep.obls {
			or := &OblReport{Name: o.Name, Kind: o.Kind, Pos: o.Pos, Descr: o.Descr}
			rep.Obls = append(rep.Obls, or)
			js = append(js, job{rep, o, or})
		}
	}
	var wg sync.WaitGroup
	sem := make(chan struct{}, *jobs)
	for _, j := range js {
		wg.Add(1)
		sem <- struct{}{}
		go func(j job) {
			defer wg.Done()
			defer func() { <-sem }()
			res := j.o.solve(*timeout)
			j.r.Backend, j.r.Ms = res.Backend, res.Ms
			switch {
			case j.o.Cover && res.Status == "sat":
				j.r.Status = "covered"
			case j.o.Cover && res.Status == "unsat":
				j.r.Status = "vacuous"
			case j.o.Cover && j.o.fc.hasQuant:
				// satisfiability under quantified assumptions is often not decidable by the solvers: not a failure
				j.r.Status = "covered"
				j.r.Backend = "undecided-quantified"
			case j.o.Cover:
				j.r.Status = "cover-undecided"
			case res.Status == "unsat":
				j.r.Status = "discharged"
			case res.Status == "sat":
				j.r.Status = "failed"
				if o.explain {
					j.r.Model = j.o.explain(*timeout)
				} else {
					j.r.Model = j.o.model(*timeout)
				}
			default:
				j.r.Status = "undecided"
				j.r.Output = res.Status + ": " + res.Output
			}
			if *dump != "" && (j.r.Status == "failed" || j.r.Status == "undecided" || j.r.Status == "vacuous") {
				j.r.SMTFile = dumpSMT(j.o, *dump)
			}
		}(j)
	}
	wg.Wait()

	// print
	total, ok, failed, undec, vac := 0, 0, 0, 0, 0
	var solverMs int64
	for _, rep := range reports {
		if rep.Error != "" {
			fmt.Printf("ERROR %s: %s\n", rep.Fn, rep.Error)
		}
		for _, u := range rep.Unsupported {
			if !o.quiet {
				fmt.Printf("UNSUPPORTED %s: %s\n", rep.Fn, u)
			}
		}
		for _, o := range rep.Obls {
			solverMs += o.Ms
			if o.Kind == "cover" {
				if o.Status != "covered" {
					vac++
					fmt.Printf("VACUOUS  %s (%s) %s\n", o.Name, o.Pos, o.Status)
				} else if *verbose {
					fmt.Printf("covered  %s\n", o.Name)
				}
				continue
			}
			total++
			switch o.Status {
			case "discharged":
				ok++
				if *verbose {
					fmt.Printf("ok       %s (%s) %s %dms\n", o.Name, o.Pos, o.Backend, o.Ms)
				}
			case "failed":
				failed++
				fmt.Printf("FAILED   %s (%s) %s -- %s\n", o.Name, o.Pos, o.Backend, o.Descr)
				if *verbose || explainMode {
					fmt.Println(truncate(o.Model, 30000))
				}
			default:
				undec++
				fmt.Printf("UNDECIDED %s (%s) -- %s [%s]\n", o.Name, o.Pos, o.Descr, firstLine(o.Output))
			}
		}
	}
	fmt.Printf("functions=%d obligations=%d discharged=%d failed=%d undecided=%d vacuous=%d load_ms=%d solver_ms=%d wall_s=%.1f\n",
		len(reports), total, ok, failed, undec, vac, loadMs, solverMs, time.Since(t0).Seconds())
	if *out != "" {
		data, _ := json.MarshalIndent(map[string]interface{}{
			"functions": reports, "obligations": total, "discharged": ok, "failed": failed, "undecided": undec, "vacuous": vac,
			"load_ms": loadMs, "solver_ms": solverMs, "wall_s": time.Since(t0).Seconds(),
		}, "", " ")
		_ = os.WriteFile(*out, data, 0o644)
	}
	return &verifyResult{Reports: reports, Total: total, OK: ok, Failed: failed, Undec: undec, Vacuous: vac, LoadMs: loadMs, SolverMs: solverMs, WallS: time.Since(t0).Seconds(), eng: e}
}

func firstLine(s string) string {
	if i := strings.Index(s, "\n"); i >= 0 {
		return s[:i]
	}
	return s
}

func contains(xs []string, x string) bool {
	for _, y := range xs {
		if y == x {
			return true
		}
	}
	return false
}

func dedup(xs []string) []string {
	m := map[string]bool{}
	var out []string
	for _, x := range xs {
		if !m[x] {
			m[x] = true
			out = append(out, x)
		}
	}
	return out
}

// callClosure adds every function under contract that is reachable through static calls (including closures, go and
// defer statements, and through functions without a contract) from the selected ones: a caller is verified against its
// callees' contracts, so a property decided through a caller depends on those callees keeping theirs. Contracts that
// need the quantified byte-content mode unconditionally stay with the properties they list.
func (e *Engine) callClosure(names []string) []string {
	sel := map[string]bool{}
	for _, n := range names {
		sel[n] = true
	}
	visited := map[*ssa.Function]bool{}
	var work []*ssa.Function
	for _, n := range names {
		if fn := e.funcs[n]; fn != nil {
			work = append(work, fn)
		}
	}
	for len(work) > 0 {
		fn := work[len(work)-1]
		work = work[:len(work)-1]
		if visited[fn] {
			continue
		}
		visited[fn] = true
		var callees []*ssa.Function
		for _, b := range fn.Blocks {
			for _, in := range b.Instrs {
				switch x := in.(type) {
				case ssa.CallInstruction:
					if c := x.Common().StaticCallee(); c != nil {
						callees = append(callees, c)
					}
					if mc, ok := x.Common().Value.(*ssa.MakeClosure); ok {
						if f, ok := mc.Fn.(*ssa.Function); ok {
							callees = append(callees, f)
						}
					}
				case *ssa.MakeClosure:
					if f, ok := x.Fn.(*ssa.Function); ok {
						callees = append(callees, f)
					}
				}
			}
		}
		for _, c := range callees {
			root := c
			for root.Parent() != nil {
				root = root.Parent()
			}
			if root.Pkg == nil || !e.inRepoPkg(root.Pkg) {
				continue
			}
			cn := e.fnName(c)
			ct := e.contracts[cn]
			if ct != nil {
				if ct.Trusted || ct.IsLemma || e.funcs[cn] == nil || (ct.Content && len(ct.ContentProps) == 0) {
					continue
				}
				if !sel[cn] {
					sel[cn] = true
					names = append(names, cn)
				}
			}
			work = append(work, c)
		}
	}
	return names
}
