package main

import (
	"fmt"
	"go/ast"
	"go/token"
	"go/types"
	"os"
	"sort"
	"strings"

	"golang.org/x/tools/go/ssa"
)

func (e *Engine) newFnCtx(fn *ssa.Function) *FnCtx {
	return &FnCtx{
		eng: e, fn: fn, c: e.contracts[e.fnName(fn)], name: e.fnName(fn), pkg: fn.Pkg.Pkg,
		declared: map[string]string{}, stateSort: map[string]string{},
		vals: map[ssa.Value]Val{}, endState: map[*ssa.BasicBlock]*State{},
		ordinals: map[string]int{}, trustedUsed: map[string]bool{},
		debugNames: map[string][]debugBinding{}, strConsts: map[string]string{},
		ghostDecl: map[string]types.Type{}, anchorOrd: map[string]int{}, anchorsHit: map[*AnchorClause]bool{}, anchorsSeen: map[string]bool{},
	}
}

// Translate generates all obligations of the function.
func (fc *FnCtx) Translate() (err error) {
	defer func() {
		if r := recover(); r != nil {
			if ue, ok := r.(userError); ok && os.Getenv("GOVC_PANIC") == "" {
				err = fmt.Errorf("%s: %s", fc.name, string(ue))
				return
			}
			panic(r)
		}
	}()
	fn := fc.fn
	if len(fn.Blocks) == 0 {
		return fmt.Errorf("%s: no body", fn)
	}
	fc.analyzeLoops()
	fc.collectDebug()

	fc.entry = fc.newRootState("true")
	fc.cur = fc.entry
	// parameters
	for _, p := range fn.Params {
		v := fc.freshVal("p_"+p.Name(), p.Type())
		fc.vals[p] = v
		fc.entry.assume(fc.wfFacts(v))
		fc.entry.assume(fc.paramFacts(v))
	}
	for _, fv := range fn.FreeVars {
		v := fc.freshVal("fv_"+fv.Name(), fv.Type())
		fc.vals[fv] = v
		fc.entry.assume(fc.wfFacts(v))
		fc.entry.assume(fc.paramFacts(v))
		// a captured variable is the address of a live cell of the enclosing function
		if pt, ok := fv.Type().Underlying().(*types.Pointer); ok {
			fc.entry.assume(ptrNonNil(v))
			if !ptrIsThin(pt.Elem()) {
				// a captured variable lives in its own cell (not in a struct field or slice element)
				fc.entry.assume(and(eq(v.L[0], bvLit(0, 16)), eq(v.L[2], bvLit(0, 64))))
			}
		}
	}
	// implicit precondition: a pointer receiver is non-nil (checked at every call site)
	if fn.Signature.Recv() != nil && len(fn.Params) > 0 {
		if _, ok := fn.Params[0].Type().Underlying().(*types.Pointer); ok {
			fc.entry.assume(ptrNonNil(fc.vals[fn.Params[0]]))
		}
	}
	env := fc.contractEnv(fc.entry, fc.entry)
	if fc.c != nil {
		for _, r := range fc.c.Requires {
			t := env.evalBool(r)
			fc.entry.assume(t)
		}
	}
	fc.cover("pre", fc.entry, fn.Pos())

	// loop write sets: a probe run of the same function tells which state names each block writes
	if fc.probe {
		fc.blockWrites = map[int]*NameSet{}
		fc.blockWritesAll = map[int]*NameSet{}
		for _, li := range fc.loops {
			li.writes = &NameSet{All: true}
		}
	} else {
		fc.eng.probeWrites(fc.fn)
		pw := fc.eng.probesAll[fc.fn]
		delete(fc.eng.pendingTargets, fc.fn)
		fc.anchorOrd = map[string]int{}
		for _, li := range fc.loops {
			li.writes = newNameSet()
			if pw == nil {
				li.writes.All = true
				continue
			}
			for b := range li.body {
				li.writes.AddAll(pw[b.Index])
			}
			if fc.c != nil {
				for _, g := range fc.c.loopGhostWrites(li.ord) {
					t := fc.ghostType(g)
					for k := range layout(t) {
						li.writes.Add(fmt.Sprintf("ghost|%s|%d", g, k))
					}
				}
			}
		}
	}
	// frame: the declared modifies clause must cover what the body (and its callees, by their summaries) may write
	if !fc.probe && fc.c != nil && fc.c.HasModifies && fc.c.AssumeFrame {
		fc.noteTrusted("frame of " + fc.name + " assumed (modifies clause not checked against the body): " + strings.Join(fc.c.Modifies, ", "))
	}
	if !fc.probe && fc.c != nil && fc.c.HasModifies && !fc.c.Trusted && !fc.c.AssumeFrame {
		declared := fc.eng.summary(fc.fn)
		pw := fc.eng.probeWrites(fc.fn)
		var extra []string
		if pw == nil {
			extra = append(extra, "probe failed")
		}
		for _, w := range pw {
			if w.All && !declared.All {
				extra = append(extra, "ALL: "+w.Why)
			}
			for n := range w.Names {
				if !declared.Has(n) && !strings.HasPrefix(n, "defer|") && !strings.HasPrefix(n, "lock|") && n != chanClosedName {
					extra = append(extra, n)
				}
			}
		}
		goal := "true"
		descr := "frame: body writes only what the modifies clause allows"
		if len(extra) > 0 {
			goal = "false"
			descr = "frame: body may write outside the modifies clause: " + strings.Join(dedup(extra), ", ")
		}
		fc.obligeAt(fc.entry, "frame", "modifies", goal, fn.Pos(), descr)
	}
	// defer flags start false
	nd := 0
	for _, b := range fn.Blocks {
		for _, in := range b.Instrs {
			if _, ok := in.(*ssa.Defer); ok {
				nd++
			}
		}
	}

	order := fc.rpo()
	type pendingInv struct {
		li   *loopInfo
		pred *ssa.BasicBlock
	}
	var pend []pendingInv
	for _, b := range order {
		var st *State
		fc.curBlock = b.Index
		if b.Index == 0 {
			st = fc.entry.derive()
			for k := 0; k < nd; k++ {
				st.set(fmt.Sprintf("defer|%d", k), SortBool, "false")
			}
		} else {
			var parents []*State
			var conds []string
			var fwdPreds []*ssa.BasicBlock
			for _, p := range b.Preds {
				if fc.backEdge[[2]int{p.Index, b.Index}] {
					pend = append(pend, pendingInv{fc.loops[b], p})
					continue
				}
				if fc.endState[p] == nil {
					continue // unreachable pred (e.g. after panic)
				}
				c := fc.define(fmt.Sprintf("edge!%d!%d", p.Index, b.Index), SortBool, fc.edgeCond(p, b))
				parents = append(parents, fc.endState[p])
				conds = append(conds, c)
				fwdPreds = append(fwdPreds, p)
			}
			if len(parents) == 0 {
				// unreachable block
				continue
			}
			g := fc.define(fmt.Sprintf("reach!%d", b.Index), SortBool, or(conds...))
			st = fc.mergeStates(parents, conds, g)
			// phis
			phiVals := map[*ssa.Phi]Val{}
			for _, in := range b.Instrs {
				phi, ok := in.(*ssa.Phi)
				if !ok {
					break
				}
				var vals []Val
				for _, p := range fwdPreds {
					for i, bp := range b.Preds {
						if bp == p {
							vals = append(vals, fc.coerce(fc.operand(phi.Edges[i]), phi.Type()))
							break
						}
					}
				}
				nl := len(layout(phi.Type()))
				v := Val{T: phi.Type(), L: make([]string, nl)}
				for k := 0; k < nl; k++ {
					e := vals[len(vals)-1].L[k]
					for i := len(vals) - 2; i >= 0; i-- {
						e = ite(conds[i], vals[i].L[k], e)
					}
					v.L[k] = e
				}
				phiVals[phi] = v
			}
			if li := fc.loops[b]; li != nil {
				// loop header: check invariant on entry, then havoc
				fc.cur = st
				fc.checkInvariant(li, st, phiVals, "inv-init", "entry")
				hs := st.havockedSilently(li.writes)
				li.hstate = hs
				li.headCtr = fc.allocCtr
				li.phiFresh = map[*ssa.Phi]Val{}
				fc.cur = hs
				for _, in := range b.Instrs {
					phi, ok := in.(*ssa.Phi)
					if !ok {
						break
					}
					v := fc.freshVal(fmt.Sprintf("phi_%s_%s", phi.Name(), phi.Comment), phi.Type())
					li.phiFresh[phi] = v
					fc.vals[phi] = v
					hs.assume(fc.wfFacts(v))
					// freshness of allocation: whatever a loop-carried variable refers to at the loop head exists
					// already, so it is none of the objects allocated from here on (their addresses are
					// allocbase + 16*k for k > allocCtr). Objects of earlier iterations are arbitrary older addresses.
					limit := app("bvadd", "allocbase", bvLit(uint64(fc.allocCtr+1)*16, 64))
					for i, isRef := range refLeaves(phi.Type()) {
						if isRef && i < len(v.L) {
							hs.assume(app("bvult", v.L[i], limit))
						}
					}
				}
				fc.assumeInvariant(li, hs)
				st = hs
			} else {
				for phi, v := range phiVals {
					fc.vals[phi] = fc.nameVal(phi.Name(), v)
				}
			}
		}
		fc.cur = st
		for i, in := range b.Instrs {
			if _, ok := in.(*ssa.Phi); ok {
				continue
			}
			fc.curInstr = in
			fc.instr(b, i, in)
		}
		fc.endState[b] = fc.cur
	}
	// back edges: invariant preservation
	for _, pi := range pend {
		p := pi.pred
		if fc.endState[p] == nil {
			continue
		}
		st := fc.endState[p].derive()
		st.guard = fc.nameGuard(fc.edgeCond(p, pi.li.header))
		phiVals := map[*ssa.Phi]Val{}
		for _, in := range pi.li.header.Instrs {
			phi, ok := in.(*ssa.Phi)
			if !ok {
				break
			}
			for i, bp := range pi.li.header.Preds {
				if bp == p {
					phiVals[phi] = fc.coerce(fc.operand(phi.Edges[i]), phi.Type())
				}
			}
		}
		fc.cur = st
		fc.checkInvariant(pi.li, st, phiVals, "inv-preserve", fmt.Sprintf("from%d", 0))
	}
	// every anchored clause must have matched a program point
	if fc.c != nil && !fc.probe {
		for _, a := range append(append(append(append([]*AnchorClause{}, fc.c.Asserts...), fc.c.GhostUpd...), fc.c.Assumes...), fc.c.Interf...) {
			_ = a
			if !fc.anchorsHit[a] && !strings.HasSuffix(a.Anchor, "#*") {
				// (a "#*" clause speaks about every such operation, including none)
				var seen []string
				for s := range fc.anchorsSeen {
					seen = append(seen, s)
				}
				sort.Strings(seen)
				// reported as a failed obligation of its own (the rest of the function is still checked): the
				// operation the clause speaks about is no longer performed at that place
				fc.obligeAt(fc.entry, "anchor", strings.ReplaceAll(a.Anchor, " ", "_"), "false", fc.fn.Pos(),
					fmt.Sprintf("contract clause attached to %q (%s): the function no longer performs that operation at that place (program points present: %s)", a.Anchor, a.Src, strings.Join(seen, "; ")))
			}
		}
	}
	return nil
}

// nameVal introduces named definitions for the leaves of a value (keeps terms small).
func (fc *FnCtx) nameVal(name string, v Val) Val {
	ls := layout(v.T)
	out := Val{T: v.T, L: make([]string, len(v.L))}
	for i, t := range v.L {
		if len(t) < 24 {
			out.L[i] = t
			continue
		}
		out.L[i] = fc.define(fmt.Sprintf("%s%s", name, ls[i].Name), ls[i].Sort, t)
	}
	return out
}

func (fc *FnCtx) setVal(v ssa.Value, val Val) {
	if len(val.L) != nLeaves(v.Type()) {
		panic(fmt.Sprintf("setVal %s: leaf mismatch %d vs %d for %s", v.Name(), len(val.L), nLeaves(v.Type()), v.Type()))
	}
	val.T = v.Type()
	fc.vals[v] = fc.nameVal(v.Name(), val)
}

// coerce adapts a value to a target type with the same layout (e.g. nil constants).
func (fc *FnCtx) coerce(v Val, t types.Type) Val {
	if len(v.L) == nLeaves(t) {
		return Val{T: t, L: v.L}
	}
	if isInterface(t) && !isInterface(v.T) {
		return fc.makeIface(v, t)
	}
	fc.unsup(fmt.Sprintf("coerce %s to %s", v.T, t))
	return fc.freshVal("coerce", t)
}

// paramFacts: references passed in are older than anything allocated here.
func (fc *FnCtx) paramFacts(v Val) string {
	var facts []string
	for i, isRef := range refLeaves(v.T) {
		if isRef && i < len(v.L) {
			facts = append(facts, app("bvult", v.L[i], "allocbase"))
		}
	}
	return and(facts...)
}

func lastSeg(s string) string {
	if i := strings.LastIndex(s, "#"); i >= 0 {
		return s[i:]
	}
	return s
}

func (fc *FnCtx) collectDebug() {
	for _, b := range fc.fn.Blocks {
		for i, in := range b.Instrs {
			switch d := in.(type) {
			case *ssa.DebugRef:
				if id, ok := d.Expr.(*ast.Ident); ok {
					if cell := cellOf(d, id.Name, b, i); cell != nil {
						// the variable lives in a heap cell (it is captured by a closure or its address is taken): the
						// value seen here is a snapshot, the variable itself is the cell's content
						// (registered before the snapshot itself, which is kept for naming channels after their variable:
						// lookupLocal prefers the earlier of two bindings at the same place)
						fc.debugNames[id.Name] = append(fc.debugNames[id.Name], debugBinding{id.Name, cell, true, b, i})
					}
					fc.debugNames[id.Name] = append(fc.debugNames[id.Name], debugBinding{id.Name, d.X, d.IsAddr, b, i})
				}
			case *ssa.Phi:
				if d.Comment != "" {
					fc.debugNames[d.Comment] = append(fc.debugNames[d.Comment], debugBinding{d.Comment, d, false, b, i})
				}
			case *ssa.Alloc:
				if d.Comment != "" {
					fc.debugNames[d.Comment] = append(fc.debugNames[d.Comment], debugBinding{d.Comment, d, true, b, i})
				}
			}
		}
	}
}

// cellOf: if the value a debug reference shows for variable name was just loaded from, or just stored into, the
// variable's own cell (an Alloc commented with the name), return that cell.
func cellOf(d *ssa.DebugRef, name string, b *ssa.BasicBlock, i int) *ssa.Alloc {
	if d.IsAddr {
		return nil
	}
	if u, ok := d.X.(*ssa.UnOp); ok && u.Op == token.MUL {
		if a, ok := u.X.(*ssa.Alloc); ok && a.Comment == name {
			return a
		}
	}
	for k := i - 1; k >= 0 && k >= i-3; k-- {
		if st, ok := b.Instrs[k].(*ssa.Store); ok && st.Val == d.X {
			if a, ok := st.Addr.(*ssa.Alloc); ok && a.Comment == name {
				return a
			}
		}
	}
	return nil
}

// lookupLocal finds the SSA value of a source-level local variable at (block b, before instruction idx).
func (fc *FnCtx) lookupLocal(name string, b *ssa.BasicBlock, idx int) (ssa.Value, bool, bool) {
	var best *debugBinding
	for i := range fc.debugNames[name] {
		d := &fc.debugNames[name][i]
		ok := false
		if d.block == b {
			ok = d.idx < idx
		} else {
			ok = d.block.Dominates(b)
		}
		if !ok {
			continue
		}
		if best == nil {
			best = d
			continue
		}
		// prefer the candidate that is "later": dominated by best's block, or later in the same block
		if d.block == best.block {
			if d.idx > best.idx {
				best = d
			}
		} else if best.block.Dominates(d.block) {
			best = d
		}
	}
	if best == nil {
		return nil, false, false
	}
	return best.val, best.isAddr, true
}

// ---------------------------------------------------------------------------

func (fc *FnCtx) instr(b *ssa.BasicBlock, idx int, in ssa.Instruction) {
	switch x := in.(type) {
	case *ssa.DebugRef:
		return
	case *ssa.Alloc:
		fc.doAlloc(x)
	case *ssa.BinOp:
		fc.setVal(x, fc.binop(x.Op, fc.operand(x.X), fc.coerceBinY(x), x.Pos()))
	case *ssa.UnOp:
		fc.doUnOp(x)
	case *ssa.Call:
		res := fc.doCall(&x.Call, x.Pos(), x)
		fc.setVal(x, res)
	case *ssa.ChangeType:
		v := fc.operand(x.X)
		fc.setVal(x, Val{T: x.Type(), L: v.L})
	case *ssa.ChangeInterface:
		v := fc.operand(x.X)
		fc.setVal(x, Val{T: x.Type(), L: v.L})
	case *ssa.Convert:
		fc.doConvert(x)
	case *ssa.MakeInterface:
		xv := fc.operand(x.X)
		if fc.eng.isRepoPtrType(x.X.Type()) {
			// data invariant: an interface never holds a nil pointer of an in-repo type
			fc.oblige("nil", "iface-box", ptrNonNil(xv), x.Pos(), "nil pointer stored in an interface")
		}
		fc.setVal(x, fc.makeIface(xv, x.Type()))
	case *ssa.TypeAssert:
		fc.doTypeAssert(x)
	case *ssa.Extract:
		tv := fc.operand(x.Tuple)
		off, n := tupleRange(x.Tuple.Type().(*types.Tuple), x.Index)
		fc.setVal(x, Val{T: x.Type(), L: tv.L[off : off+n]})
	case *ssa.Field:
		sv := fc.operand(x.X)
		off, n := fieldRange(x.X.Type().Underlying().(*types.Struct), x.Field)
		fc.setVal(x, Val{T: x.Type(), L: sv.L[off : off+n]})
	case *ssa.FieldAddr:
		fc.doFieldAddr(x)
	case *ssa.IndexAddr:
		fc.doIndexAddr(x)
	case *ssa.Index:
		fc.doIndex(x)
	case *ssa.Lookup:
		fc.doLookup(x)
	case *ssa.Slice:
		fc.doSlice(x)
	case *ssa.MakeSlice:
		fc.doMakeSlice(x)
	case *ssa.MakeMap:
		ref := fc.allocRef()
		fc.mapInit(x.Type(), ref)
		fc.setVal(x, Val{T: x.Type(), L: []string{ref}})
	case *ssa.MakeChan:
		ref := fc.allocRef()
		fc.setVal(x, Val{T: x.Type(), L: []string{ref}})
		// the capacity is a fixed attribute of the channel
		fc.declareFunOnce("chancap", "((_ BitVec 64)) (_ BitVec 64)")
		if sz := fc.operand(x.Size); len(sz.L) == 1 {
			w, signed, _ := isIntType(sz.T)
			if w == 0 {
				w, signed = 64, true
			}
			sz64 := fc.convInt(sz.L[0], w, signed, 64)
			// make(chan T, n) panics for a negative n (an absurdly large one is resource exhaustion, not modelled)
			fc.oblige("bounds", "makechan", app("bvsle", bvLit(0, 64), sz64), x.Pos(), "makechan: size out of range")
			fc.cur.assume(eq(app("chancap", ref), sz64))
		}
		name := fc.chanClass(x)
		if fc.chanOnce(name) {
			arr := fc.cur.get(chanClosedName, chanClosedSort)
			fc.cur = fc.cur.derive()
			fc.cur.set(chanClosedName, chanClosedSort, app("store", arr, ref, "false"))
		}
		fc.anchorArgs = nil
		fc.anchorBefore("make "+name, x.Pos())
		res := fc.vals[x]
		fc.anchorRes = &res
		fc.anchorAfter("make "+name, x.Pos())
		fc.anchorRes = nil
	case *ssa.MakeClosure:
		ref := fc.allocRef()
		fc.setVal(x, Val{T: x.Type(), L: []string{ref}})
	case *ssa.Store:
		ptr := fc.operand(x.Addr)
		fc.oblige("nil", "store", ptrNonNil(ptr), x.Pos(), "store through nil pointer")
		elem := ptr.T.Underlying().(*types.Pointer).Elem()
		fc.storePtr(fc.cur, ptr, fc.coerce(fc.operand(x.Val), elem))
	case *ssa.MapUpdate:
		fc.doMapUpdate(x)
	case *ssa.If, *ssa.Jump:
		return
	case *ssa.Return:
		fc.doReturn(x)
	case *ssa.Panic:
		fc.doPanic(x)
	case *ssa.RunDefers:
		fc.doRunDefers(x)
	case *ssa.Defer:
		fc.doDefer(x)
	case *ssa.Go:
		fc.doGo(x)
	case *ssa.Send:
		fc.doSend(x)
	case *ssa.Select:
		fc.doSelect(x)
	case *ssa.Range:
		fc.setVal(x, fc.freshVal("range", x.Type()))
		if isStringType(x.X.Type()) {
			fc.cur = fc.cur.derive()
			fc.cur.set(fc.rangePosName(x), bvSort(64), bvLit(0, 64))
		}
	case *ssa.Next:
		fc.doNext(x)
	case *ssa.SliceToArrayPointer, *ssa.MultiConvert:
		fc.unsup(fmt.Sprintf("%T", in))
		fc.havocAll()
		fc.setVal(in.(ssa.Value), fc.freshValWF("unsup", in.(ssa.Value).Type()))
	default:
		fc.unsup(fmt.Sprintf("instruction %T", in))
		fc.havocAll()
		if v, ok := in.(ssa.Value); ok {
			fc.setVal(v, fc.freshValWF("unsup", v.Type()))
		}
	}
}

func (fc *FnCtx) coerceBinY(x *ssa.BinOp) Val {
	y := fc.operand(x.Y)
	if x.Op == token.SHL || x.Op == token.SHR {
		return y
	}
	xv := fc.operand(x.X)
	if isInterface(xv.T) != isInterface(y.T) {
		return y // valEq handles it
	}
	if len(y.L) != len(xv.L) {
		return fc.coerce(y, xv.T)
	}
	return y
}

func (fc *FnCtx) havocAll() {
	why := fc.name
	if fc.curInstr != nil {
		why += " @" + fc.posOf(fc.curInstr.Pos()) + " " + fmt.Sprintf("%T", fc.curInstr)
	}
	fc.cur = fc.cur.havocked(&NameSet{All: true, Why: why})
}

func (fc *FnCtx) doAlloc(x *ssa.Alloc) {
	elem := x.Type().Underlying().(*types.Pointer).Elem()
	ref := fc.allocRef()
	savedNR := fc.noRecord
	fc.noRecord = true
	defer func() { fc.noRecord = savedNR }()
	if ptrIsThin(elem) {
		if isStruct(elem) {
			fc.storeAt(fc.cur, elem, ref, zeroVal(elem))
		} else {
			// array: zero contents
			at := elem.Underlying().(*types.Array)
			et := at.Elem()
			if !ptrIsThin(et) {
				for k, lf := range layout(et) {
					name := fmt.Sprintf("E|%s|%d", typeKey(et), k)
					srt := arraySort(SortRef, arraySort(bvSort(64), lf.Sort))
					zeroArr := fmt.Sprintf("((as const %s) %s)", arraySort(bvSort(64), lf.Sort), zeroOfSort(lf.Sort))
					fc.cur.set(name, srt, app("store", fc.cur.get(name, srt), ref, zeroArr))
				}
			}
		}
		fc.setVal(x, Val{T: x.Type(), L: []string{ref}})
		return
	}
	p := Val{T: x.Type(), L: []string{bvLit(0, 16), ref, bvLit(0, 64)}}
	fc.storeFat(fc.cur, elem, fatOf(p), zeroVal(elem))
	fc.setVal(x, p)
}

func (fc *FnCtx) doUnOp(x *ssa.UnOp) {
	v := fc.operand(x.X)
	switch x.Op {
	case token.MUL: // load
		if fc.c != nil && fc.c.IsFunction && !fc.probe && fc.inlineDepth == 0 {
			if _, isAlloc := x.X.(*ssa.Alloc); !isAlloc {
				if g, isGlobal := x.X.(*ssa.Global); !isGlobal || !fc.eng.immutableGlobal(g) {
					fc.obligeAt(fc.cur, "function", "heap-read", "false", x.Pos(), "a contract marked 'function' must not read the heap")
				}
			}
		}
		fc.oblige("nil", "load", ptrNonNil(v), x.Pos(), "load through nil pointer")
		if g, ok := x.X.(*ssa.Global); ok {
			if val, ok := fc.loadGlobal(g); ok {
				fc.setVal(x, val)
				return
			}
		}
		val := fc.loadPtr(fc.cur, v)
		fc.cur.assume(fc.wfFacts(val))
		fc.cur.assume(fc.entryHeapFacts(val))
		fc.setVal(x, val)
	case token.NOT:
		fc.setVal(x, boolVal(not(v.L[0])))
	case token.SUB:
		fc.setVal(x, Val{T: x.Type(), L: []string{app("bvneg", v.L[0])}})
	case token.XOR:
		fc.setVal(x, Val{T: x.Type(), L: []string{app("bvnot", v.L[0])}})
	case token.ARROW:
		fc.doRecv(x, v)
	default:
		fc.unsup("unop " + x.Op.String())
		fc.setVal(x, fc.freshValWF("unop", x.Type()))
	}
}

// loadGlobal gives immutable package-level sentinel values a fixed identity.
func (fc *FnCtx) loadGlobal(g *ssa.Global) (Val, bool) {
	elem := g.Type().Underlying().(*types.Pointer).Elem()
	if !fc.eng.immutableGlobal(g) {
		return Val{}, false
	}
	name := "gval!" + g.String()
	ls := layout(elem)
	v := Val{T: elem, L: make([]string, len(ls))}
	for i, l := range ls {
		v.L[i] = fc.declare(name+l.Name, l.Sort)
	}
	if _, ok := fc.declared["ax!"+name]; !ok {
		fc.declared["ax!"+name] = "x"
		fc.axiom(fc.wfFacts(v))
		if isInterface(elem) {
			// sentinel errors: non-nil, with a payload that identifies them
			fc.axiom(not(eq(v.L[0], bvLit(0, 16))))
			fc.eng.sentinelAxioms(fc, g, v)
		}
	}
	return v, true
}

func (fc *FnCtx) doConvert(x *ssa.Convert) {
	v := fc.operand(x.X)
	from, to := x.X.Type(), x.Type()
	fw, fsigned, fok := isIntType(from)
	tw, _, tok := isIntType(to)
	switch {
	case fok && tok:
		fc.setVal(x, Val{T: to, L: []string{fc.convInt(v.L[0], fw, fsigned, tw)}})
	case isStringType(to) && fok:
		r := fc.freshValWF("runestr", to)
		fc.setVal(x, r)
	case isStringType(to):
		// string(bytes)
		if _, ok := from.Underlying().(*types.Slice); ok {
			r := fc.freshVal("bstr", to)
			fc.cur.assume(eq(app("strlen", r.L[0]), v.L[2]))
			if et := from.Underlying().(*types.Slice).Elem(); fc.contentOn() && typeKey(et) == "uint8" {
				// contents: strat(r, j) == bytes[j]
				fc.hasQuant = true
				arr := app("select", fc.cur.get("E|uint8|0", arraySort(SortRef, arraySort(bvSort(64), bvSort(8)))), v.L[0])
				j := qsym(fc.fresh("qs"))
				fc.cur.assume(fmt.Sprintf("(forall ((%s (_ BitVec 64))) (! (=> (bvult %s %s) (= (strat %s %s) (select %s (bvadd %s %s)))) :pattern ((strat %s %s))))",
					j, j, v.L[2], r.L[0], j, arr, v.L[1], j, r.L[0], j))
			}
			fc.setVal(x, r)
			return
		}
		fc.setVal(x, Val{T: to, L: v.L})
	case isStringType(from):
		if _, ok := to.Underlying().(*types.Slice); ok {
			ref := fc.allocRef()
			cp := fc.declareFresh("cap", bvSort(64))
			ln := app("strlen", v.L[0])
			isEmpty := eq(ln, bvLit(0, 64))
			fc.cur.assume(and(app("bvsle", ln, cp), app("bvsle", cp, maxCapLit)))
			fc.havocElems(to.Underlying().(*types.Slice).Elem(), ref)
			_ = isEmpty
			if et := to.Underlying().(*types.Slice).Elem(); fc.contentOn() && typeKey(et) == "uint8" {
				fc.hasQuant = true
				arr := app("select", fc.cur.get("E|uint8|0", arraySort(SortRef, arraySort(bvSort(64), bvSort(8)))), ref)
				j := qsym(fc.fresh("qs"))
				fc.cur.assume(fmt.Sprintf("(forall ((%s (_ BitVec 64))) (! (=> (bvult %s %s) (= (select %s %s) (strat %s %s))) :pattern ((select %s %s))))",
					j, j, ln, arr, j, v.L[0], j, arr, j))
			}
			fc.setVal(x, Val{T: to, L: []string{ref, bvLit(0, 64), ln, cp}})
			return
		}
		fc.setVal(x, Val{T: to, L: v.L})
	default:
		if len(v.L) == nLeaves(to) {
			fc.setVal(x, Val{T: to, L: v.L})
			return
		}
		fc.unsup(fmt.Sprintf("convert %s -> %s", from, to))
		fc.setVal(x, fc.freshValWF("conv", to))
	}
}

// havocElems gives the element storage of base fresh contents.
func (fc *FnCtx) havocElems(et types.Type, base string) {
	if ptrIsThin(et) {
		return
	}
	for k, lf := range layout(et) {
		name := fmt.Sprintf("E|%s|%d", typeKey(et), k)
		inner := arraySort(bvSort(64), lf.Sort)
		srt := arraySort(SortRef, inner)
		fr := fc.declareFresh("elems", inner)
		fc.cur.set(name, srt, app("store", fc.cur.get(name, srt), base, fr))
	}
}

func (fc *FnCtx) doTypeAssert(x *ssa.TypeAssert) {
	v := fc.operand(x.X)
	tag := v.L[0]
	var ok string
	var val Val
	if isInterface(x.AssertedType) {
		ok = and(not(eq(tag, bvLit(0, 16))), fc.implementsTerm(tag, x.AssertedType))
		val = Val{T: x.AssertedType, L: v.L}
	} else {
		ok = eq(tag, fc.tagOf(x.AssertedType))
		val = fc.unboxIface(fc.cur, v, x.AssertedType)
	}
	if x.CommaOk {
		okn := fc.define(x.Name()+"!ok", SortBool, ok)
		z := zeroVal(x.AssertedType)
		out := Val{T: x.Type()}
		for k := range val.L {
			out.L = append(out.L, ite(okn, val.L[k], z.L[k]))
		}
		out.L = append(out.L, okn)
		if !isInterface(x.AssertedType) {
			fc.cur.assume(implies(okn, fc.wfFacts(val)))
		}
		fc.setVal(x, out)
		return
	}
	fc.oblige("assert-type", typeKey(x.AssertedType), ok, x.Pos(), "type assertion may fail")
	if !isInterface(x.AssertedType) {
		fc.cur.assume(fc.wfFacts(val))
	}
	fc.setVal(x, val)
}

func (fc *FnCtx) doFieldAddr(x *ssa.FieldAddr) {
	p := fc.operand(x.X)
	fc.oblige("nil", "field", ptrNonNil(p), x.Pos(), "field access through nil pointer")
	st := x.X.Type().Underlying().(*types.Pointer).Elem()
	ft := st.Underlying().(*types.Struct).Field(x.Field).Type()
	if ptrIsThin(ft) {
		r := fc.subRef(st, x.Field, p.L[0])
		r = fc.define(x.Name(), SortRef, r)
		k := fc.eng.fieldID(st, x.Field)
		fc.axiom(and(eq(app("sub_owner", r), p.L[0]), eq(app("sub_fid", r), bvLit(uint64(k), 16)), not(eq(r, bvLit(0, 64)))))
		if fc.isFreshRef(p.L[0]) {
			if fc.freshSet == nil {
				fc.freshSet = map[string]bool{}
			}
			fc.freshSet[r] = true
		}
		fc.vals[x] = Val{T: x.Type(), L: []string{r}}
		return
	}
	k := fc.eng.fieldID(st, x.Field)
	fc.vals[x] = Val{T: x.Type(), L: []string{bvLit(uint64(k), 16), p.L[0], bvLit(0, 64)}}
}

func (fc *FnCtx) sliceParts(v Val) (base, off, ln, cp string) { return v.L[0], v.L[1], v.L[2], v.L[3] }

func (fc *FnCtx) idx64(v ssa.Value) string {
	val := fc.operand(v)
	w, signed, _ := isIntType(val.T)
	return fc.convInt(val.L[0], w, signed, 64)
}

func (fc *FnCtx) idxNonNeg(v ssa.Value) string {
	val := fc.operand(v)
	w, signed, _ := isIntType(val.T)
	if !signed {
		return "true"
	}
	return app("bvsge", val.L[0], bvLit(0, w))
}

func (fc *FnCtx) doIndexAddr(x *ssa.IndexAddr) {
	xv := fc.operand(x.X)
	i := fc.idx64(x.Index)
	var base, off, ln string
	var et types.Type
	switch u := x.X.Type().Underlying().(type) {
	case *types.Slice:
		base, off, ln, _ = fc.sliceParts(xv)
		et = u.Elem()
	case *types.Pointer:
		at := u.Elem().Underlying().(*types.Array)
		fc.oblige("nil", "index", ptrNonNil(xv), x.Pos(), "index through nil array pointer")
		base, off, ln = xv.L[0], bvLit(0, 64), bvLit(uint64(at.Len()), 64)
		et = at.Elem()
	}
	fc.oblige("bounds", "index", and(fc.idxNonNegWide(x.Index), app("bvult", i, ln)), x.Pos(), "index out of range")
	pos := app("bvadd", off, i)
	if ptrIsThin(et) {
		r := fc.define(x.Name(), SortRef, fc.eltRef(base, pos))
		fc.axiom(and(eq(app("elt_base", r), base), eq(app("elt_idx", r), pos), eq(app("sub_fid", r), bvLit(2, 16)), not(eq(r, bvLit(0, 64)))))
		if fc.isFreshRef(base) {
			if fc.freshSet == nil {
				fc.freshSet = map[string]bool{}
			}
			fc.freshSet[r] = true
		}
		fc.vals[x] = Val{T: x.Type(), L: []string{r}}
		return
	}
	fc.vals[x] = fc.nameVal(x.Name(), Val{T: x.Type(), L: []string{bvLit(1, 16), base, pos}})
}

// idxNonNegWide: index values wider/narrower than 64 bit that are unsigned and large are caught by bvult on the
// zero-extended value; signed negatives sign-extend to huge unsigned values and are caught as well.
func (fc *FnCtx) idxNonNegWide(v ssa.Value) string { return "true" }

func (fc *FnCtx) doIndex(x *ssa.Index) {
	xv := fc.operand(x.X)
	i := fc.idx64(x.Index)
	switch u := x.X.Type().Underlying().(type) {
	case *types.Array:
		fc.oblige("bounds", "index", app("bvult", i, bvLit(uint64(u.Len()), 64)), x.Pos(), "index out of range")
		et := u.Elem()
		if ptrIsThin(et) {
			fc.unsup("index of array of structs")
			fc.setVal(x, fc.freshValWF("idx", x.Type()))
			return
		}
		p := fatPtr{bvLit(1, 16), xv.L[0], i}
		fc.setVal(x, fc.loadFat(fc.cur, et, p))
	case *types.Basic: // string
		fc.oblige("bounds", "index", app("bvult", i, app("strlen", xv.L[0])), x.Pos(), "string index out of range")
		fc.setVal(x, Val{T: x.Type(), L: []string{app("strat", xv.L[0], i)}})
	default:
		fc.unsup("index on " + x.X.Type().String())
		fc.setVal(x, fc.freshValWF("idx", x.Type()))
	}
}

func (fc *FnCtx) doLookup(x *ssa.Lookup) {
	xv := fc.operand(x.X)
	if isStringType(x.X.Type()) {
		i := fc.idx64(x.Index)
		fc.oblige("bounds", "index", app("bvult", i, app("strlen", xv.L[0])), x.Pos(), "string index out of range")
		fc.setVal(x, Val{T: x.Type(), L: []string{app("strat", xv.L[0], i)}})
		return
	}
	fc.doMapLookup(x, xv)
}

func (fc *FnCtx) doSlice(x *ssa.Slice) {
	xv := fc.operand(x.X)
	get := func(v ssa.Value, def string) string {
		if v == nil {
			return def
		}
		return fc.idx64(v)
	}
	switch u := x.X.Type().Underlying().(type) {
	case *types.Slice:
		base, off, ln, cp := fc.sliceParts(xv)
		lo := get(x.Low, bvLit(0, 64))
		hi := get(x.High, ln)
		mx := get(x.Max, cp)
		fc.oblige("bounds", "slice", and(app("bvule", lo, hi), app("bvule", hi, mx), app("bvule", mx, cp)), x.Pos(), "slice bounds out of range")
		_ = u
		fc.setVal(x, Val{T: x.Type(), L: []string{base, app("bvadd", off, lo), app("bvsub", hi, lo), app("bvsub", mx, lo)}})
	case *types.Basic: // string
		ln := app("strlen", xv.L[0])
		lo := get(x.Low, bvLit(0, 64))
		hi := get(x.High, ln)
		fc.oblige("bounds", "slice", and(app("bvule", lo, hi), app("bvule", hi, ln)), x.Pos(), "string slice bounds out of range")
		r := fc.freshVal("substr", x.Type())
		fc.cur.assume(eq(app("strlen", r.L[0]), app("bvsub", hi, lo)))
		// slicing the whole string is the identity
		fc.cur.assume(implies(and(eq(lo, bvLit(0, 64)), eq(hi, ln)), eq(r.L[0], xv.L[0])))
		fc.setVal(x, r)
	case *types.Pointer: // *[N]T
		at := u.Elem().Underlying().(*types.Array)
		fc.oblige("nil", "slice", ptrNonNil(xv), x.Pos(), "slice of nil array pointer")
		n := bvLit(uint64(at.Len()), 64)
		lo := get(x.Low, bvLit(0, 64))
		hi := get(x.High, n)
		mx := get(x.Max, n)
		fc.oblige("bounds", "slice", and(app("bvule", lo, hi), app("bvule", hi, mx), app("bvule", mx, n)), x.Pos(), "slice bounds out of range")
		fc.setVal(x, Val{T: x.Type(), L: []string{xv.L[0], lo, app("bvsub", hi, lo), app("bvsub", mx, lo)}})
	default:
		fc.unsup("slice of " + x.X.Type().String())
		fc.setVal(x, fc.freshValWF("slice", x.Type()))
	}
}

func (fc *FnCtx) doMakeSlice(x *ssa.MakeSlice) {
	ln := fc.idx64(x.Len)
	cp := fc.idx64(x.Cap)
	et := x.Type().Underlying().(*types.Slice).Elem()
	esz := uint64(fc.eng.sizes.Sizeof(et))
	if esz == 0 {
		esz = 1
	}
	// runtime panics: len out of range / cap out of range
	lim := bvLit((uint64(1)<<47)/esz, 64)
	fc.oblige("bounds", "makeslice", and(app("bvule", ln, cp), app("bvule", cp, lim)), x.Pos(), "makeslice: len/cap out of range")
	fc.allocObligation(x.Pos(), app("bvmul", cp, bvLit(esz, 64)), "make")
	ref := fc.allocRef()
	savedNR := fc.noRecord
	fc.noRecord = true
	defer func() { fc.noRecord = savedNR }()
	// zeroed contents
	if !ptrIsThin(et) {
		for k, lf := range layout(et) {
			name := fmt.Sprintf("E|%s|%d", typeKey(et), k)
			inner := arraySort(bvSort(64), lf.Sort)
			srt := arraySort(SortRef, inner)
			zeroArr := fmt.Sprintf("((as const %s) %s)", inner, zeroOfSort(lf.Sort))
			fc.cur.set(name, srt, app("store", fc.cur.get(name, srt), ref, zeroArr))
		}
	}
	fc.setVal(x, Val{T: x.Type(), L: []string{ref, bvLit(0, 64), ln, cp}})
}

// allocObligation: allocation size must respect the function's declared alloc-bound, if any.
func (fc *FnCtx) allocObligation(pos token.Pos, bytes string, what string) {
	if fc.c == nil || fc.c.AllocBound == nil {
		return
	}
	env := fc.contractEnv(fc.cur, fc.entry)
	bound := env.eval(fc.c.AllocBound)
	var b string
	if bound.C != nil {
		b = fc.constOfType(bound.C, types.Typ[types.Int]).L[0]
	} else {
		w, _, _ := isIntType(bound.T)
		b = fc.convInt(bound.L[0], w, false, 64)
	}
	fc.oblige("alloc", what, app("bvule", bytes, b), pos, "allocation exceeds the declared bound")
}

func (fc *FnCtx) doReturn(x *ssa.Return) {
	fc.retCount++
	var res []Val
	sig := fc.fn.Signature.Results()
	for i, r := range x.Results {
		res = append(res, fc.coerce(fc.operand(r), sig.At(i).Type()))
	}
	if fc.c != nil && fc.c.DeadCode[fmt.Sprintf("ret%d", fc.retCount)] {
		// declared unreachable (e.g. 32-bit only code): proved, not assumed
		fc.obligeAt(fc.cur, "unreachable", fmt.Sprintf("ret%d", fc.retCount), "false", x.Pos(), "return declared dead code")
		return
	}
	fc.cover(fmt.Sprintf("ret%d", fc.retCount), fc.cur, x.Pos())
	if fc.c == nil {
		return
	}
	fc.results = res
	env := fc.contractEnv(fc.cur, fc.entry)
	env.results = res
	fc.bytesFrameObligation(env, x.Pos())
	for i, e := range fc.c.Ensures {
		if fc.skipEnsures(fc.c, i) {
			continue
		}
		if auditAntecedents {
			if ante, ok := env.antecedentOf(e); ok {
				st := fc.cur.derive()
				st.assume(ante)
				fc.cover(fmt.Sprintf("ante!post!e%d!ret%d!%s", i+1, fc.retCount, truncate(fc.c.EnsuresSrc[i], 60)), st, x.Pos())
			}
		}
		goal := env.evalBool(e)
		fc.obligeAt(fc.cur, "post", fmt.Sprintf("e%d!ret%d", i+1, fc.retCount), goal, x.Pos(), "postcondition: "+fc.c.EnsuresSrc[i])
	}
	fc.results = nil
}

func (fc *FnCtx) doPanic(x *ssa.Panic) {
	if fc.c != nil && fc.c.MayPanic {
		return
	}
	fc.obligeAt(fc.cur, "panic", "explicit", "false", x.Pos(), "explicit panic reachable")
}

// ---------------------------------------------------------------------------
// invariants

func (fc *FnCtx) loopEnv(li *loopInfo, st *State, phiVals map[*ssa.Phi]Val) *Env {
	env := fc.contractEnv(st, fc.entry)
	h := li.header
	env.local = func(name string) (Val, bool) {
		// phi of the header
		for phi, v := range phiVals {
			if phi.Comment == name {
				return v, true
			}
		}
		v, isAddr, ok := fc.lookupLocal(name, h, 0)
		if !ok {
			return Val{}, false
		}
		if phi, isPhi := v.(*ssa.Phi); isPhi && phi.Block() == h {
			if pv, ok := phiVals[phi]; ok {
				return pv, true
			}
		}
		val := fc.operand(v)
		if isAddr && isArrayPtr(val.T) {
			return val, true
		}
		if isAddr {
			return fc.loadPtr(st, val), true
		}
		return val, true
	}
	// rangepos: byte position of the range-over-string iteration that drives this loop
	if name, s, ok := fc.stringRangeOf(li); ok {
		env.vars["rangepos"] = Val{T: types.Typ[types.Int], L: []string{st.get(name, bvSort(64))}}
		_ = s
	}
	return env
}

// isArrayPtr: *[N]T
func isArrayPtr(t types.Type) bool {
	p, ok := t.Underlying().(*types.Pointer)
	if !ok {
		return false
	}
	_, ok = p.Elem().Underlying().(*types.Array)
	return ok
}

// rangePosName is the state variable holding the byte position of a range-over-string iterator.
func (fc *FnCtx) rangePosName(r *ssa.Range) string {
	return "R|pos|" + fc.posOf(r.Pos()) + "|" + r.Name()
}

// stringRangeOf finds the range-over-string iterator advanced in the header of loop li.
func (fc *FnCtx) stringRangeOf(li *loopInfo) (string, *ssa.Range, bool) {
	for _, in := range li.header.Instrs {
		if nx, ok := in.(*ssa.Next); ok && nx.IsString {
			if r, ok := nx.Iter.(*ssa.Range); ok {
				return fc.rangePosName(r), r, true
			}
		}
	}
	return "", nil, false
}

// autoInvariants: the hidden index of a range-over-slice loop never drops below -1 (checked like any invariant).
func (fc *FnCtx) autoInvariants(li *loopInfo, phiVals map[*ssa.Phi]Val) []string {
	var out []string
	for _, in := range li.header.Instrs {
		phi, ok := in.(*ssa.Phi)
		if !ok {
			break
		}
		if phi.Comment == "rangeindex" {
			if v, ok := phiVals[phi]; ok {
				out = append(out, and(app("bvsge", v.L[0], bvLit(^uint64(0), 64)), app("bvslt", v.L[0], maxCapLit)))
			}
		}
	}
	return out
}

func (fc *FnCtx) checkInvariant(li *loopInfo, st *State, phiVals map[*ssa.Phi]Val, kind, detail string) {
	for i, t := range fc.autoInvariants(li, phiVals) {
		fc.obligeAt(st, kind, fmt.Sprintf("loop%d!auto%d", li.ord, i+1), t, li.header.Instrs[0].Pos(), kind+": -1 <= range index < 2^47")
	}
	if fc.c == nil {
		return
	}
	invs := fc.c.LoopInv[li.ord]
	env := fc.loopEnv(li, st, phiVals)
	env.olderLimit = app("bvadd", "allocbase", bvLit(uint64(fc.allocCtr+1)*16, 64))
	if g := fc.bytesFrameFormula(fc.contractEnv(st, fc.entry), st); g != "" {
		// automatic invariant of functions whose modifies clause names byte arrays individually
		fc.hasQuant = true
		fc.obligeAt(st, kind, fmt.Sprintf("loop%d!bytesframe", li.ord), g, li.header.Instrs[0].Pos(), kind+": byte arrays other than the named ones are unchanged since entry")
	}
	for i, inv := range invs {
		goal := env.evalBool(inv)
		fc.obligeAt(st, kind, fmt.Sprintf("loop%d!i%d", li.ord, i+1), goal, li.header.Instrs[0].Pos(), kind+": "+fc.c.LoopInvSrc[li.ord][i])
	}
}

func (fc *FnCtx) assumeInvariant(li *loopInfo, st *State) {
	for _, t := range fc.autoInvariants(li, li.phiFresh) {
		st.assume(t)
	}
	if fc.c == nil {
		return
	}
	env := fc.loopEnv(li, st, li.phiFresh)
	env.olderLimit = app("bvadd", "allocbase", bvLit(uint64(li.headCtr+1)*16, 64))
	if g := fc.bytesFrameFormula(fc.contractEnv(st, fc.entry), st); g != "" {
		fc.hasQuant = true
		st.assume(g)
	}
	for _, inv := range fc.c.LoopInv[li.ord] {
		st.assume(env.evalBool(inv))
	}
	for i, a := range fc.c.LoopAssume[li.ord] {
		// assumed, not proved: listed in the trusted base
		st.assume(env.evalBool(a))
		fc.noteTrusted(fmt.Sprintf("loop %d of %s: assumed without proof: %s", li.ord, fc.name, fc.c.LoopAssumeSrc[li.ord][i]))
	}
}

// newLemmaCtx builds a context without code: the obligations come from the lemma's clauses only.
func (e *Engine) newLemmaCtx(c *Contract) *FnCtx {
	fc := &FnCtx{
		eng: e, c: c, name: c.Func, pkg: e.pkgOfContract(c), lemmaMode: true,
		declared: map[string]string{}, stateSort: map[string]string{},
		vals: map[ssa.Value]Val{}, endState: map[*ssa.BasicBlock]*State{},
		ordinals: map[string]int{}, trustedUsed: map[string]bool{},
		debugNames: map[string][]debugBinding{}, strConsts: map[string]string{},
		ghostDecl: map[string]types.Type{}, anchorOrd: map[string]int{}, anchorsHit: map[*AnchorClause]bool{}, anchorsSeen: map[string]bool{},
	}
	return fc
}

// TranslateLemma: variables are universally quantified (fresh constants), requires assumed, ensures proved.
// Calls to functions under contract inside the clauses are replaced by their contracts.
func (fc *FnCtx) TranslateLemma() (err error) {
	defer func() {
		if r := recover(); r != nil {
			if ue, ok := r.(userError); ok {
				err = fmt.Errorf("%s: %s", fc.name, string(ue))
				return
			}
			panic(r)
		}
	}()
	fc.entry = fc.newRootState("true")
	fc.cur = fc.entry.derive()
	env := &Env{fc: fc, pkg: fc.pkg, vars: map[string]Val{}, bound: map[string]Val{}, st: fc.cur, old: fc.entry}
	for _, v := range fc.c.Vars {
		e, perr := parseExprSrc(v[1])
		if perr != nil {
			userErr("lemma variable %s: %v", v[0], perr)
		}
		t := env.resolveType(e)
		val := fc.freshVal("v_"+v[0], t)
		fc.cur.assume(fc.wfFacts(val))
		env.vars[v[0]] = val
	}
	for _, r := range fc.c.Requires {
		env.st = fc.cur
		fc.cur.assume(env.evalBool(r))
	}
	fc.cover("pre", fc.cur, 0)
	for i, e := range fc.c.Ensures {
		env.st = fc.cur
		goal := env.evalBool(e)
		fc.obligeAt(fc.cur, "lemma", fmt.Sprintf("e%d", i+1), goal, 0, "lemma: "+fc.c.EnsuresSrc[i])
	}
	return nil
}

// entryHeapFacts: a reference read directly from the heap as it was at function entry denotes an object that
// existed then, i.e. it is older than everything this function allocates.
func (fc *FnCtx) entryHeapFacts(v Val) string {
	suffix := fmt.Sprintf("@%d|", fc.entry.id)
	var facts []string
	ls := layout(v.T)
	isRef := refLeaves(v.T)
	for i := range ls {
		if i >= len(v.L) || i >= len(isRef) || !isRef[i] {
			continue
		}
		t := v.L[i]
		// (select |name@<entry>| addr): an object that already existed at entry cannot point to a newer object
		if strings.HasPrefix(t, "(select |") {
			rest := t[len("(select "):]
			end := strings.Index(rest[1:], "|")
			if end > 0 && strings.HasSuffix(rest[:end+2], suffix) {
				addr := strings.TrimSuffix(strings.TrimSpace(rest[end+2:]), ")")
				facts = append(facts, implies(app("bvult", addr, "allocbase"), app("bvult", t, "allocbase")))
			}
		}
	}
	return and(facts...)
}

// bytesFrameObligation: a modifies clause that names byte arrays individually ("bytesof b", no plain "bytes") promises
// that every byte array that existed at entry, other than the named ones, is unchanged at exit.
func (fc *FnCtx) bytesFrameObligation(env *Env, pos token.Pos) {
	goal := fc.bytesFrameFormula(env, fc.cur)
	if goal == "" {
		return
	}
	fc.hasQuant = true
	fc.obligeAt(fc.cur, "frame", "bytesof", goal, pos, "frame: only the byte arrays named in the modifies clause (and arrays allocated here) are written")
}

// bytesFrameFormula: "" if the contract does not name byte arrays individually or nothing was written.
func (fc *FnCtx) bytesFrameFormula(env *Env, cur *State) string {
	c := fc.c
	if c == nil || !c.HasModifies || c.Trusted || c.AssumeFrame {
		return ""
	}
	var bases []string
	for _, item := range c.Modifies {
		switch {
		case item == "bytes" || item == "all":
			return ""
		case strings.HasPrefix(item, "bytesof "):
			e, err := parseExprSrc(strings.TrimPrefix(item, "bytesof "))
			if err != nil {
				userErr("modifies item %s: %v", item, err)
			}
			saved := env.inOld
			env.inOld = true
			st := env.st
			env.st = env.old
			sv := env.eval(e)
			env.st, env.inOld = st, saved
			bases = append(bases, sv.L[0])
		}
	}
	if len(bases) == 0 {
		return ""
	}
	srt := arraySort(SortRef, arraySort(bvSort(64), bvSort(8)))
	now := cur.get("E|uint8|0", srt)
	then := fc.entry.get("E|uint8|0", srt)
	if now == then {
		return ""
	}
	r := qsym(fc.fresh("qr"))
	conds := []string{app("bvult", r, "allocbase")}
	for _, b := range bases {
		conds = append(conds, not(eq(r, b)))
	}
	return fmt.Sprintf("(forall ((%s (_ BitVec 64))) (! (=> %s (= (select %s %s) (select %s %s))) :pattern ((select %s %s))))", r, and(conds...), now, r, then, r, now, r)
}
