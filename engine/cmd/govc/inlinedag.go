package main

import (
	"go/token"
	"go/types"

	"golang.org/x/tools/go/ssa"
)

// Inlining of small loop-free helpers with branches. A helper without a contract used to be summarised (its writes
// havocked, its results unconstrained), which makes "extract a few lines into an unexported helper" -- an edit that
// changes nothing -- break the caller's proof. A helper that is loop-free, small, stores nothing and calls only
// functions that are themselves inlined or under contract is instead executed symbolically at the call site, path by
// path; the paths' end states are merged. Safety obligations inside it are then obligations of the caller.

func (e *Engine) dagInlineable(fn *ssa.Function) bool {
	if v, ok := e.dagMemo[fn]; ok {
		return v
	}
	if e.dagMemo == nil {
		e.dagMemo = map[*ssa.Function]bool{}
	}
	e.dagMemo[fn] = false // recursion guard
	ok := len(fn.Blocks) > 1 && len(fn.Blocks) <= 16 && fn.Recover == nil
	n := 0
	if ok {
		// loop-free: every edge goes to a block that is not an ancestor on the DFS stack
		state := map[*ssa.BasicBlock]int{}
		var dfs func(b *ssa.BasicBlock)
		dfs = func(b *ssa.BasicBlock) {
			state[b] = 1
			for _, s := range b.Succs {
				switch state[s] {
				case 1:
					ok = false
				case 0:
					dfs(s)
				}
			}
			state[b] = 2
		}
		dfs(fn.Blocks[0])
	}
	for _, b := range fn.Blocks {
		if !ok {
			break
		}
		for _, in := range b.Instrs {
			n++
			switch x := in.(type) {
			case *ssa.Go, *ssa.Defer, *ssa.RunDefers, *ssa.Select, *ssa.Send, *ssa.Panic, *ssa.Store, *ssa.MapUpdate, *ssa.Range, *ssa.Next, *ssa.MakeClosure, *ssa.Alloc:
				ok = false
			case *ssa.UnOp:
				if x.Op == token.ARROW {
					ok = false
				}
			case *ssa.Call:
				if x.Call.IsInvoke() {
					ok = false
					break
				}
				switch c := x.Call.Value.(type) {
				case *ssa.Builtin:
					if c.Name() != "len" && c.Name() != "cap" && c.Name() != "min" && c.Name() != "max" {
						ok = false
					}
				case *ssa.Function:
					ct := e.contracts[e.fnName(c)]
					if ct == nil && !(e.inRepo(c) && c.Blocks != nil && (e.inlineable(c) || e.dagInlineable(c))) {
						ok = false
					}
				default:
					ok = false
				}
			}
		}
	}
	if n > 120 {
		ok = false
	}
	e.dagMemo[fn] = ok
	return ok
}

func (fc *FnCtx) inlineDAG(callee *ssa.Function, args []Val, binds []Val, pos token.Pos, resT types.Type) Val {
	fc.inlineDepth++
	defer func() { fc.inlineDepth-- }()
	saved := map[ssa.Value]Val{}
	record := func(v ssa.Value) {
		if old, ok := fc.vals[v]; ok {
			saved[v] = old
			delete(fc.vals, v)
		}
	}
	for _, p := range callee.Params {
		record(p)
	}
	for _, b := range callee.Blocks {
		for _, in := range b.Instrs {
			if v, ok := in.(ssa.Value); ok {
				record(v)
			}
		}
	}
	for i, p := range callee.Params {
		fc.vals[p] = fc.coerce(args[i], p.Type())
	}
	type ret struct {
		st   *State
		cond string
		L    []string
	}
	var rets []ret
	sig := callee.Signature.Results()
	savedInstr := fc.curInstr
	var walk func(b, pred *ssa.BasicBlock, pc string)
	walk = func(b, pred *ssa.BasicBlock, pc string) {
		for i, in := range b.Instrs {
			switch x := in.(type) {
			case *ssa.Phi:
				for k, p := range b.Preds {
					if p == pred {
						fc.vals[x] = fc.coerce(fc.operand(x.Edges[k]), x.Type())
					}
				}
			case *ssa.If:
				c := fc.operand(x.Cond).L[0]
				base := fc.cur
				t := base.derive()
				t.assume(c)
				fc.cur = t
				walk(b.Succs[0], b, and(pc, c))
				e := base.derive()
				e.assume(not(c))
				fc.cur = e
				walk(b.Succs[1], b, and(pc, not(c)))
				return
			case *ssa.Jump:
				walk(b.Succs[0], b, pc)
				return
			case *ssa.Return:
				var L []string
				for k, r := range x.Results {
					L = append(L, fc.coerce(fc.operand(r), sig.At(k).Type()).L...)
				}
				rets = append(rets, ret{fc.cur, pc, L})
				return
			default:
				fc.curInstr = in
				fc.instr(b, i, in)
			}
		}
	}
	walk(callee.Blocks[0], nil, "true")
	fc.curInstr = savedInstr
	for _, p := range callee.Params {
		delete(fc.vals, p)
	}
	for _, b := range callee.Blocks {
		for _, in := range b.Instrs {
			if v, ok := in.(ssa.Value); ok {
				delete(fc.vals, v)
			}
		}
	}
	for v, old := range saved {
		fc.vals[v] = old
	}
	if len(rets) == 0 {
		// no path returns (cannot happen for the functions accepted above)
		fc.cur = fc.cur.derive()
		fc.cur.assume("false")
		return fc.freshValWF("r_dag", resT)
	}
	var parents []*State
	var conds, guards []string
	for _, r := range rets {
		parents = append(parents, r.st)
		conds = append(conds, fc.nameGuard(r.cond))
		guards = append(guards, r.st.guard)
	}
	fc.cur = fc.mergeStates(parents, conds, fc.nameGuard(or(guards...)))
	out := Val{T: resT, L: make([]string, len(rets[len(rets)-1].L))}
	for k := range out.L {
		e := rets[len(rets)-1].L[k]
		for i := len(rets) - 2; i >= 0; i-- {
			e = ite(conds[i], rets[i].L[k], e)
		}
		out.L[k] = e
	}
	return fc.nameVal(fc.fresh("dag"), out)
}
