package main

import (
	"encoding/json"
	"fmt"
	"go/ast"
	"go/token"
	"go/types"
	"os"
	"path/filepath"
	"sort"
	"strings"

	"golang.org/x/tools/go/packages"
	"golang.org/x/tools/go/ssa"
	"golang.org/x/tools/go/ssa/ssautil"
)

const foreignTagBase = 0x8000

var repoPkgs = []string{
	"github.com/pkg/sftp",
	"github.com/pkg/sftp/internal/encoding/ssh/filexfer",
	"github.com/pkg/sftp/internal/encoding/ssh/filexfer/openssh",
	"github.com/pkg/sftp/server_standalone",
}

type escField struct {
	st    types.Type
	field int
	id    int
}

type Engine struct {
	repo  string
	fset  *token.FileSet
	prog  *ssa.Program
	pkgs  map[string]*ssa.Package // by path
	ppkgs map[string]*packages.Package
	sizes types.Sizes

	funcs     map[string]*ssa.Function // by fnName, in-repo only
	contracts map[string]*Contract
	cfiles    []*ContractFile
	ghosts    map[string]types.Type
	chanInv   map[string]ast.Expr
	lemmas    []*Lemma
	preds     map[string]*Pred

	fieldIDs   map[string]int
	fieldByID  map[int]escField
	escFields  map[string][]escField // by typeKey of field type
	tagIDs     map[string]int
	known      []types.Type
	knownSet   map[string]bool
	nextForTag int

	inlineMemo  map[*ssa.Function]bool
	dagMemo     map[*ssa.Function]bool
	summaries   map[*ssa.Function]*NameSet
	inSummary   map[*ssa.Function]bool
	probes      map[*ssa.Function]map[int]*NameSet
	probesAll   map[*ssa.Function]map[int]*NameSet
	anchorOrds  map[*ssa.Function]map[anchorKey]int
	pendingTargets map[*ssa.Function]bool
	plainRecvTypes map[string]bool
	mutGlobals  map[*ssa.Global]bool
	globalAlias map[string]string
	globalInit  map[*ssa.Global]ssa.Value

	contentMode bool
	curProp     string // property being verified ("" = all)
	anchorFiles map[string][]string
}

func loadEngine(repo string) (*Engine, error) {
	cfg := &packages.Config{Mode: packages.LoadAllSyntax, Dir: repo, BuildFlags: []string{"-tags=verif"},
		Env: append(os.Environ(), "GOFLAGS=-mod=mod", "GOPROXY=off")}
	pkgs, err := packages.Load(cfg, repoPkgs...)
	if err != nil {
		return nil, err
	}
	for _, p := range pkgs {
		if len(p.Errors) > 0 {
			return nil, fmt.Errorf("package %s: %v", p.PkgPath, p.Errors)
		}
	}
	prog, spkgs := ssautil.AllPackages(pkgs, ssa.GlobalDebug|ssa.InstantiateGenerics)
	prog.Build()
	e := &Engine{repo: repo, fset: prog.Fset, prog: prog, pkgs: map[string]*ssa.Package{}, ppkgs: map[string]*packages.Package{},
		funcs: map[string]*ssa.Function{}, contracts: map[string]*Contract{}, ghosts: map[string]types.Type{}, chanInv: map[string]ast.Expr{},
		fieldIDs: map[string]int{}, fieldByID: map[int]escField{}, escFields: map[string][]escField{}, tagIDs: map[string]int{},
		knownSet: map[string]bool{}, nextForTag: foreignTagBase + 16,
		inlineMemo: map[*ssa.Function]bool{}, summaries: map[*ssa.Function]*NameSet{}, inSummary: map[*ssa.Function]bool{}, probes: map[*ssa.Function]map[int]*NameSet{}, probesAll: map[*ssa.Function]map[int]*NameSet{}, anchorOrds: map[*ssa.Function]map[anchorKey]int{}, pendingTargets: map[*ssa.Function]bool{}, plainRecvTypes: map[string]bool{},
		mutGlobals: map[*ssa.Global]bool{}, globalAlias: map[string]string{}, globalInit: map[*ssa.Global]ssa.Value{},
	}
	e.sizes = types.SizesFor("gc", "amd64")
	for i, p := range pkgs {
		e.pkgs[p.PkgPath] = spkgs[i]
		e.ppkgs[p.PkgPath] = p
	}
	e.indexFunctions()
	e.scanProgram()
	if err := e.loadContracts(); err != nil {
		return nil, err
	}
	return e, nil
}

func (e *Engine) inRepoPkg(p *ssa.Package) bool {
	if p == nil {
		return false
	}
	for _, rp := range repoPkgs {
		if p.Pkg.Path() == rp {
			return true
		}
	}
	return false
}

func (e *Engine) inRepo(fn *ssa.Function) bool {
	for fn.Parent() != nil {
		fn = fn.Parent()
	}
	if fn.Pkg != nil {
		return e.inRepoPkg(fn.Pkg)
	}
	// methods of instantiated generics etc.
	return false
}

// fnName: stable name used in contracts and obligation names.
func (e *Engine) fnName(fn *ssa.Function) string {
	root := fn
	for root.Parent() != nil {
		root = root.Parent()
	}
	if root.Pkg != nil && e.inRepoPkg(root.Pkg) {
		return root.Pkg.Pkg.Name() + "." + fn.RelString(root.Pkg.Pkg)
	}
	return fn.String()
}

func (e *Engine) allRepoFunctions() []*ssa.Function {
	var out []*ssa.Function
	seen := map[*ssa.Function]bool{}
	var add func(fn *ssa.Function)
	add = func(fn *ssa.Function) {
		if fn == nil || seen[fn] {
			return
		}
		seen[fn] = true
		out = append(out, fn)
		for _, a := range fn.AnonFuncs {
			add(a)
		}
	}
	for _, path := range repoPkgs {
		p := e.pkgs[path]
		for _, m := range p.Members {
			switch x := m.(type) {
			case *ssa.Function:
				add(x)
			case *ssa.Type:
				for _, t := range []types.Type{x.Type(), types.NewPointer(x.Type())} {
					ms := e.prog.MethodSets.MethodSet(t)
					for i := 0; i < ms.Len(); i++ {
						fn := e.prog.MethodValue(ms.At(i))
						if fn != nil && fn.Synthetic == "" {
							add(fn)
						}
					}
				}
			}
		}
	}
	sort.Slice(out, func(i, j int) bool { return e.fnName(out[i]) < e.fnName(out[j]) })
	return out
}

func (e *Engine) indexFunctions() {
	for _, fn := range e.allRepoFunctions() {
		e.funcs[e.fnName(fn)] = fn
	}
}

// scanProgram computes escaping fields, known dynamic types and mutable globals.
func (e *Engine) scanProgram() {
	// known types: declared named types (and pointers to them)
	addKnown := func(t types.Type) {
		if isInterface(t) {
			return
		}
		k := typeKey(t)
		if e.knownSet[k] {
			return
		}
		e.knownSet[k] = true
		e.known = append(e.known, t)
	}
	for _, path := range repoPkgs {
		sc := e.pkgs[path].Pkg.Scope()
		for _, n := range sc.Names() {
			if tn, ok := sc.Lookup(n).(*types.TypeName); ok && !tn.IsAlias() {
				if _, isTP := tn.Type().(*types.TypeParam); isTP {
					continue
				}
				if named, ok := tn.Type().(*types.Named); ok && named.TypeParams().Len() > 0 {
					continue
				}
				addKnown(tn.Type())
				addKnown(types.NewPointer(tn.Type()))
			}
		}
	}
	for _, fn := range e.allRepoFunctions() {
		for _, b := range fn.Blocks {
			for _, in := range b.Instrs {
				switch x := in.(type) {
				case *ssa.UnOp:
					if x.Op == token.ARROW && !x.CommaOk {
						if ct, ok := x.X.Type().Underlying().(*types.Chan); ok {
							e.plainRecvTypes[typeKey(ct.Elem())] = true
						}
					}
				case *ssa.Select:
					for _, st := range x.States {
						if st.Dir == types.RecvOnly {
							if ct, ok := st.Chan.Type().Underlying().(*types.Chan); ok {
								e.plainRecvTypes[typeKey(ct.Elem())] = true
							}
						}
					}
				case *ssa.MakeInterface:
					addKnown(x.X.Type())
				case *ssa.FieldAddr:
					st := x.X.Type().Underlying().(*types.Pointer).Elem()
					ft := st.Underlying().(*types.Struct).Field(x.Field).Type()
					if ptrIsThin(ft) {
						continue
					}
					if e.escapes(x) {
						e.addEscField(st, x.Field)
					}
				case *ssa.Store:
					if g, ok := x.Addr.(*ssa.Global); ok {
						if fn.Name() == "init" && fn.Parent() == nil {
							e.globalInit[g] = x.Val
						} else {
							e.mutGlobals[g] = true
						}
					}
				}
			}
		}
	}
	sort.Slice(e.known, func(i, j int) bool { return typeKey(e.known[i]) < typeKey(e.known[j]) })
	for i, t := range e.known {
		e.tagIDs[typeKey(t)] = i + 1
	}
	// any global whose address escapes (passed to a call, stored) is mutable
	for _, fn := range e.allRepoFunctions() {
		for _, b := range fn.Blocks {
			for _, in := range b.Instrs {
				for _, op := range in.Operands(nil) {
					g, ok := (*op).(*ssa.Global)
					if !ok {
						continue
					}
					switch y := in.(type) {
					case *ssa.UnOp:
						continue
					case *ssa.Store:
						if y.Addr == g {
							continue
						}
					case *ssa.DebugRef:
						continue
					case *ssa.FieldAddr, *ssa.IndexAddr:
						// interior access: be conservative
					}
					e.mutGlobals[g] = true
				}
			}
		}
	}
}

func (e *Engine) escapes(x *ssa.FieldAddr) bool {
	refs := x.Referrers()
	if refs == nil {
		return true
	}
	for _, r := range *refs {
		switch y := r.(type) {
		case *ssa.UnOp:
			if y.Op == token.MUL {
				continue
			}
		case *ssa.Store:
			if y.Addr == x && y.Val != x {
				continue
			}
		case *ssa.DebugRef:
			continue
		}
		return true
	}
	return false
}

func (e *Engine) addEscField(st types.Type, field int) {
	id := e.fieldID(st, field)
	ft := st.Underlying().(*types.Struct).Field(field).Type()
	k := typeKey(ft)
	for _, f := range e.escFields[k] {
		if f.id == id {
			return
		}
	}
	e.escFields[k] = append(e.escFields[k], escField{st, field, id})
	sort.Slice(e.escFields[k], func(i, j int) bool { return e.escFields[k][i].id < e.escFields[k][j].id })
}

func (e *Engine) fieldID(st types.Type, field int) int {
	key := fmt.Sprintf("%s#%d", typeKey(st), field)
	if id, ok := e.fieldIDs[key]; ok {
		return id
	}
	id := 16 + len(e.fieldIDs)
	e.fieldIDs[key] = id
	e.fieldByID[id] = escField{st, field, id}
	return id
}

func (e *Engine) knownTypes() []types.Type { return e.known }

func (e *Engine) tagID(t types.Type) int {
	k := typeKey(t)
	if id, ok := e.tagIDs[k]; ok {
		return id
	}
	id := e.nextForTag
	e.nextForTag++
	e.tagIDs[k] = id
	return id
}

func (e *Engine) sealedIface(iface *types.Interface) bool {
	for i := 0; i < iface.NumMethods(); i++ {
		if !iface.Method(i).Exported() {
			return true
		}
	}
	return false
}

func (e *Engine) ifaceMethodKey(it types.Type, m string) string {
	if n, ok := it.(*types.Named); ok && n.Obj().Pkg() != nil {
		for _, rp := range repoPkgs {
			if n.Obj().Pkg().Path() == rp {
				return fmt.Sprintf("%s.(%s).%s", n.Obj().Pkg().Name(), n.Obj().Name(), m)
			}
		}
		return fmt.Sprintf("(%s.%s).%s", n.Obj().Pkg().Name(), n.Obj().Name(), m)
	}
	if n, ok := it.(*types.Named); ok {
		return fmt.Sprintf("(%s).%s", n.Obj().Name(), m) // error
	}
	return fmt.Sprintf("(%s).%s", typeKey(it), m)
}

func (e *Engine) importedPkg(from *types.Package, name string) *types.Package {
	for _, imp := range from.Imports() {
		if imp.Name() == name {
			return imp
		}
	}
	// any package of the program with that name (contracts may mention packages the file does not import)
	for _, p := range e.prog.AllPackages() {
		if p.Pkg.Name() == name {
			return p.Pkg
		}
	}
	return nil
}

func (e *Engine) globalOf(v *types.Var) *ssa.Global {
	if v.Pkg() == nil {
		return nil
	}
	p := e.prog.Package(v.Pkg())
	if p == nil {
		return nil
	}
	g, _ := p.Members[v.Name()].(*ssa.Global)
	return g
}

func (e *Engine) pkgOfContract(c *Contract) *types.Package {
	for _, rp := range repoPkgs {
		if e.pkgs[rp].Pkg.Name() == c.Pkg {
			return e.pkgs[rp].Pkg
		}
	}
	return e.pkgs[repoPkgs[0]].Pkg
}

// immutableGlobal: package-level variables that are never assigned outside init (sentinel errors, tables).
func (e *Engine) immutableGlobal(g *ssa.Global) bool {
	if e.inRepoPkg(g.Pkg) {
		return !e.mutGlobals[g]
	}
	// foreign: error sentinels only
	elem := g.Type().Underlying().(*types.Pointer).Elem()
	return isInterface(elem)
}

var stdAliases = map[string]string{
	"os.ErrNotExist":   "io/fs.ErrNotExist",
	"os.ErrExist":      "io/fs.ErrExist",
	"os.ErrPermission": "io/fs.ErrPermission",
	"os.ErrInvalid":    "io/fs.ErrInvalid",
	"os.ErrClosed":     "io/fs.ErrClosed",
}

// sentinelAxioms constrains the value of an immutable interface-typed global.
func (e *Engine) sentinelAxioms(fc *FnCtx, g *ssa.Global, v Val) {
	name := g.String()
	if a, ok := stdAliases[name]; ok {
		// same value as the aliased variable
		for _, p := range e.prog.AllPackages() {
			for _, m := range p.Members {
				if og, ok := m.(*ssa.Global); ok && og.String() == a {
					ov, _ := fc.loadGlobal(og)
					fc.axiom(and(eq(v.L[0], ov.L[0]), eq(v.L[1], ov.L[1])))
					return
				}
			}
		}
	}
	if init, ok := e.globalInit[g]; ok {
		switch x := init.(type) {
		case *ssa.UnOp: // alias of another global
			if og, ok := x.X.(*ssa.Global); ok && x.Op == token.MUL {
				ov, ok2 := fc.loadGlobal(og)
				if ok2 {
					fc.axiom(and(eq(v.L[0], ov.L[0]), eq(v.L[1], ov.L[1])))
					return
				}
			}
		case *ssa.MakeInterface:
			if c, ok := x.X.(*ssa.Const); ok {
				cv := fc.constVal(c)
				saved := fc.cur
				iv := fc.makeIface(cv, v.T)
				fc.cur = saved
				fc.axiom(and(eq(v.L[0], iv.L[0]), eq(v.L[1], iv.L[1])))
				return
			}
		}
	}
	// generic sentinel: a foreign dynamic type, pairwise distinct from other generic sentinels, older than any
	// object allocated by the function under verification, and (errors.New values) wrapping nothing
	// (tags foreignTagBase .. foreignTagBase+15 stand for foreign types the repository never names; a named foreign
	//  type such as *os.PathError gets its own id above that range, and no std sentinel used here has such a type)
	fc.axiom(and(app("bvuge", v.L[0], bvLit(foreignTagBase, 16)), app("bvult", v.L[0], bvLit(foreignTagBase+16, 16))))
	fc.axiom(app("bvult", v.L[1], "allocbase"))
	fc.declareFunOnce("unw_tag", "("+SortTag+" (_ BitVec 64)) "+SortTag)
	fc.declareFunOnce("unw_pay", "("+SortTag+" (_ BitVec 64)) (_ BitVec 64)")
	if e.isErrorsNewGlobal(g) {
		fc.axiom(eq(app("unw_tag", v.L[0], v.L[1]), bvLit(0, 16)))
	}
	for _, o := range fc.sentinels {
		fc.axiom(not(and(eq(v.L[0], o.L[0]), eq(v.L[1], o.L[1]))))
	}
	fc.sentinels = append(fc.sentinels, v)
}

// ---------------------------------------------------------------------------
// write summaries

func (e *Engine) summary(fn *ssa.Function) *NameSet {
	if s, ok := e.summaries[fn]; ok {
		return s
	}
	if e.inSummary[fn] {
		// recursive edge: the function's own writes are accounted for at the root of the cycle
		e.pendingTargets[fn] = true
		return newNameSet()
	}
	ns := e.summary0(fn)
	if c := e.contracts[e.fnName(fn)]; c != nil && len(c.GhostUpd) > 0 && !ns.All {
		cp := newNameSet()
		cp.AddAll(ns)
		for _, u := range c.GhostUpd {
			e2ghostNames(u.Ghost, cp)
		}
		ns = cp
	}
	delete(e.pendingTargets, fn)
	if len(e.pendingTargets) == 0 {
		e.summaries[fn] = ns
	} else {
		// partial result (depends on a function still being summarised): do not cache
		delete(e.summaries, fn)
		delete(e.probes, fn)
		delete(e.probesAll, fn)
	}
	return ns
}

func (e *Engine) summary0(fn *ssa.Function) *NameSet {
	if c := e.contracts[e.fnName(fn)]; c != nil && c.HasModifies {
		// resolved lazily at call sites (needs an Env); here: conservative names
		ns := newNameSet()
		if c.Pure {
			e.summaries[fn] = ns
			return ns
		}
		env := &Env{fc: &FnCtx{eng: e, fn: fn}, pkg: fn.Pkg.Pkg, vars: map[string]Val{}}
		for _, p := range fn.Params {
			env.vars[p.Name()] = Val{T: p.Type()}
		}
		for _, item := range c.Modifies {
			switch {
			case item == "bytes", strings.HasPrefix(item, "bytesof "):
				ns.Add("E|uint8|0")
			case item == "all":
				ns.All = true
			case strings.HasPrefix(item, "ghost."):
				e2ghostNames(strings.TrimPrefix(item, "ghost."), ns)
			case strings.HasPrefix(item, "*"):
				// precise pointer: type-directed over-approximation
				for _, p := range fn.Params {
					if p.Name() == strings.TrimPrefix(item, "*") {
						elem := p.Type().Underlying().(*types.Pointer).Elem()
						if ptrIsThin(elem) {
							e.objectNames(elem, ns)
						} else {
							e.fatStoreNames(elem, ns)
						}
					}
				}
			case strings.HasPrefix(item, "mapof "):
				func() {
					defer func() {
						if r := recover(); r != nil {
							ns.All = true
							ns.Why = "mapof item"
						}
					}()
					// resolve the type of "p.field" syntactically
					path := strings.Split(strings.TrimPrefix(item, "mapof "), ".")
					var t types.Type
					for _, p := range fn.Params {
						if p.Name() == path[0] {
							t = p.Type()
						}
					}
					for _, fname := range path[1:] {
						obj, _, _ := types.LookupFieldOrMethod(t, true, fn.Pkg.Pkg, fname)
						t = obj.Type()
					}
					e.mapStateNames(t.Underlying().(*types.Map), ns)
				}()
			case strings.HasPrefix(item, "elems "):
				ns.All = true
			default:
				func() {
					defer func() {
						if r := recover(); r != nil {
							ns.All = true
						}
					}()
					e.modifiesItemNames(env, item, ns)
				}()
			}
		}
		e.summaries[fn] = ns
		return ns
	}
	if fn.Blocks == nil || !e.inRepo(fn) {
		ns := newNameSet()
		foreignWrites(fn.Signature, ns)
		e.summaries[fn] = ns
		return ns
	}
	pw := e.probeWrites(fn)
	ns := newNameSet()
	if pw == nil {
		ns.All = true
		ns.Why = "probe of " + e.fnName(fn) + " failed or recursive"
	}
	for _, w := range pw {
		ns.AddAll(w)
	}
	// local bookkeeping names are not visible to callers
	for n := range ns.Names {
		if strings.HasPrefix(n, "defer|") {
			delete(ns.Names, n)
		}
	}
	e.summaries[fn] = ns
	return ns
}

// probeWrites translates fn once with all loops havocking everything and records the state names written per block.
func (e *Engine) probeWrites(fn *ssa.Function) map[int]*NameSet {
	if pw, ok := e.probes[fn]; ok {
		return pw
	}
	if e.inSummary[fn] {
		e.pendingTargets[fn] = true
		return map[int]*NameSet{}
	}
	e.inSummary[fn] = true
	defer delete(e.inSummary, fn)
	probe := e.newFnCtx(fn)
	probe.probe = true
	probe.c = nil
	ok := true
	func() {
		defer func() {
			if r := recover(); r != nil {
				if _, isUser := r.(userError); isUser {
					ok = false
					return
				}
				panic(r)
			}
		}()
		if err := probe.Translate(); err != nil {
			ok = false
		}
	}()
	if !ok {
		e.probes[fn] = nil
		return nil
	}
	e.probes[fn] = probe.blockWrites
	e.probesAll[fn] = probe.blockWritesAll
	// anchor ordinals in source order
	ords := map[anchorKey]int{}
	byName := map[string][]anchorKey{}
	for _, k := range probe.anchorLog {
		byName[k.name] = append(byName[k.name], k)
	}
	for _, ks := range byName {
		sort.SliceStable(ks, func(i, j int) bool { return ks[i].pos < ks[j].pos })
		n := 0
		for i, k := range ks {
			if i > 0 && ks[i-1] == k {
				continue
			}
			n++
			ords[k] = n
		}
	}
	e.anchorOrds[fn] = ords
	return probe.blockWrites
}

// instrWrites is unused in probe mode; kept for completeness.
func (e *Engine) instrWrites(fc *FnCtx, in ssa.Instruction, ns *NameSet) {}

// ---------------------------------------------------------------------------
// contracts

// contractFiles: package name -> contract files (comment-only Go files behind the build tag verif). Files after the
// first may only add to what the first declares ("extend func" blocks, further functions, preds, ghosts).
func (e *Engine) contractFiles() [][2]string {
	return [][2]string{
		{"sftp", filepath.Join(e.repo, "verif_contracts.go")},
		{"sftp", filepath.Join(e.repo, "verif_contracts_c06.go")},
		{"sshfx", filepath.Join(e.repo, "internal/encoding/ssh/filexfer/verif_contracts.go")},
		{"sshfx", filepath.Join(e.repo, "internal/encoding/ssh/filexfer/verif_contracts_c06.go")},
		{"openssh", filepath.Join(e.repo, "internal/encoding/ssh/filexfer/openssh/verif_contracts.go")},
		{"main", filepath.Join(e.repo, "server_standalone/verif_contracts.go")},
	}
}

func (e *Engine) loadContracts() error {
	type ext struct {
		pkg string
		c   *Contract
	}
	var extends []ext
	for _, pp := range e.contractFiles() {
		pkg, path := pp[0], pp[1]
		if _, err := os.Stat(path); err != nil {
			continue
		}
		cf, err := parseContractFile(path, pkg)
		if err != nil {
			return err
		}
		e.cfiles = append(e.cfiles, cf)
		for name, c := range cf.Contracts {
			key := pkg + "." + name
			if isForeignName(name) {
				key = name
			}
			c.Func = key
			if _, dup := e.contracts[key]; dup {
				return fmt.Errorf("duplicate contract %s", key)
			}
			e.contracts[key] = c
			for cls, inv := range c.ChanInv {
				if strings.HasPrefix(cls, "global:") {
					e.chanInv[strings.TrimPrefix(cls, "global:")] = inv
					delete(c.ChanInv, cls)
				}
			}
		}
		for _, g := range cf.Ghosts {
			t, err := e.parseGhostType(g.Type, pkg)
			if err != nil {
				return fmt.Errorf("ghost var %s: %v", g.Name, err)
			}
			e.ghosts[g.Name] = t
		}
		for _, x := range cf.Extends {
			extends = append(extends, ext{pkg, x})
		}
		e.lemmas = append(e.lemmas, cf.Lemmas...)
		for _, p := range cf.Preds {
			if e.preds == nil {
				e.preds = map[string]*Pred{}
			}
			e.preds[pkg+"."+p.Name] = p
		}
	}
	for _, x := range extends {
		key := x.pkg + "." + x.c.Func
		if isForeignName(x.c.Func) {
			key = x.c.Func
		}
		base := e.contracts[key]
		if base == nil {
			return fmt.Errorf("%s:%d: extend func %s: no contract to extend", x.c.File, x.c.Line, x.c.Func)
		}
		base.mergeExtension(x.c)
	}
	// every contract must name an existing function (or a foreign one / interface method)
	for key, c := range e.contracts {
		if isForeignName(strings.TrimPrefix(key, c.Pkg+".")) || strings.Contains(key, ".(") && e.funcs[key] == nil && e.isIfaceKey(key) {
			continue
		}
		if c.IsLemma {
			continue
		}
		if e.funcs[key] == nil {
			return fmt.Errorf("%s:%d: contract for unknown function %s", c.File, c.Line, key)
		}
	}
	return nil
}

func (e *Engine) isIfaceKey(key string) bool {
	// pkg.(Iface).Method
	i := strings.Index(key, ".(")
	j := strings.Index(key, ").")
	if i < 0 || j < 0 {
		return false
	}
	pkgName, tname := key[:i], key[i+2:j]
	for _, rp := range repoPkgs {
		p := e.pkgs[rp].Pkg
		if p.Name() == pkgName {
			if tn, ok := p.Scope().Lookup(tname).(*types.TypeName); ok {
				return isInterface(tn.Type())
			}
		}
	}
	return false
}

func isForeignName(name string) bool {
	// "io.ReadFull", "(*os.File).Close", "(io.Reader).Read", "(error).Error"
	if strings.HasPrefix(name, "(") {
		end := strings.Index(name, ")")
		inner := strings.TrimPrefix(name[1:end], "*")
		return strings.Contains(inner, ".") || inner == "error"
	}
	return strings.Contains(name, ".")
}

func (e *Engine) parseGhostType(s string, pkg string) (types.Type, error) {
	switch s {
	case "int":
		return types.Typ[types.Int], nil
	case "int64":
		return types.Typ[types.Int64], nil
	case "uint32":
		return types.Typ[types.Uint32], nil
	case "uint64":
		return types.Typ[types.Uint64], nil
	case "bool":
		return types.Typ[types.Bool], nil
	case "string":
		return types.Typ[types.String], nil
	}
	// any other type expression, resolved in the scope of the package the contract file belongs to
	for _, sp := range e.pkgs {
		if sp.Pkg.Name() != pkg {
			continue
		}
		if tv, err := types.Eval(e.fset, sp.Pkg, token.NoPos, s); err == nil && tv.IsType() {
			return tv.Type, nil
		}
		// package-qualified types (time.Time, os.FileMode, ...): evaluate in the scope of a file that imports the package
		if pp := e.ppkgs[sp.Pkg.Path()]; pp != nil {
			for _, f := range pp.Syntax {
				if tv, err := types.Eval(e.fset, sp.Pkg, f.Name.End(), s); err == nil && tv.IsType() {
					return tv.Type, nil
				}
			}
		}
	}
	return nil, fmt.Errorf("unsupported ghost type %q", s)
}

// isRepoPtrType: *T with T a named struct type declared in the repository.
func (e *Engine) isRepoPtrType(t types.Type) bool {
	p, ok := t.(*types.Pointer)
	if !ok {
		return false
	}
	n, ok := p.Elem().(*types.Named)
	if !ok || n.Obj().Pkg() == nil {
		return false
	}
	for _, rp := range repoPkgs {
		if n.Obj().Pkg().Path() == rp {
			return true
		}
	}
	return false
}

// isErrorsNewGlobal: package-level "var x = errors.New(...)".
func (e *Engine) isErrorsNewGlobal(g *ssa.Global) bool {
	if init, ok := e.globalInit[g]; ok {
		if c, ok := init.(*ssa.Call); ok {
			if f := c.Call.StaticCallee(); f != nil && f.String() == "errors.New" {
				return true
			}
		}
		return false
	}
	switch g.String() {
	case "io.EOF", "io.ErrUnexpectedEOF", "io/fs.ErrNotExist", "io/fs.ErrPermission", "io/fs.ErrExist", "io/fs.ErrInvalid", "io/fs.ErrClosed":
		return true
	}
	return false
}

// isRepoIface: interface type declared in (or literal inside) the repository's packages, whose unexported methods
// therefore belong to the repository.
func (e *Engine) isRepoIface(t types.Type) bool {
	iface, ok := t.Underlying().(*types.Interface)
	if !ok {
		return false
	}
	for i := 0; i < iface.NumMethods(); i++ {
		m := iface.Method(i)
		if !m.Exported() {
			if m.Pkg() == nil {
				return false
			}
			in := false
			for _, rp := range repoPkgs {
				if m.Pkg().Path() == rp {
					in = true
				}
			}
			if !in {
				return false
			}
		}
	}
	return true
}

// contractPkg: the package in whose scope a contract's expressions are evaluated: the callee's own package for
// in-repo functions, the package of the contract file for foreign (library) functions.
func (e *Engine) contractPkg(callee *ssa.Function, c *Contract) *types.Package {
	if e.inRepo(callee) && callee.Pkg != nil {
		return callee.Pkg.Pkg
	}
	return e.pkgOfContract(c)
}

// sortOfStateName: SMT sort of a heap array from its name (H|type|field|leaf), for names not yet used in a VC.
func (e *Engine) sortOfStateName(name string) string {
	parts := strings.Split(name, "|")
	if len(parts) != 4 || parts[0] != "H" {
		return ""
	}
	var fi, li int
	fmt.Sscanf(parts[2], "%d", &fi)
	fmt.Sscanf(parts[3], "%d", &li)
	for key, id := range e.fieldIDs {
		_ = id
		if strings.HasPrefix(key, parts[1]+"#") {
			f := e.fieldByID[e.fieldIDs[key]]
			st := f.st.Underlying().(*types.Struct)
			if fi < st.NumFields() {
				ls := layout(st.Field(fi).Type())
				if li < len(ls) {
					return arraySort(SortRef, ls[li].Sort)
				}
			}
		}
	}
	return ""
}

// objectNameSorts: heap array names of an object type together with their SMT sorts.
func (e *Engine) objectNameSorts(t types.Type, out map[string]string) {
	switch u := t.Underlying().(type) {
	case *types.Struct:
		for i := 0; i < u.NumFields(); i++ {
			ft := u.Field(i).Type()
			if ptrIsThin(ft) {
				e.objectNameSorts(ft, out)
				continue
			}
			for k, lf := range layout(ft) {
				out[fmt.Sprintf("H|%s|%d|%d", typeKey(t), i, k)] = arraySort(SortRef, lf.Sort)
			}
		}
	case *types.Array:
		et := u.Elem()
		if ptrIsThin(et) {
			e.objectNameSorts(et, out)
		}
	}
}

// inAnchorFiles: fn is declared in one of the files listed under anchors.files of the property
// (read from properties.jsonl next to the known-findings file; missing file: no extension of the selection).
func (e *Engine) inAnchorFiles(prop string, fn *ssa.Function) bool {
	if fn == nil {
		return false
	}
	if e.anchorFiles == nil {
		e.anchorFiles = map[string][]string{}
		path := os.Getenv("GOVC_PROPERTIES")
		if path == "" {
			path = "/verif/properties.jsonl"
		}
		if data, err := os.ReadFile(path); err == nil {
			for _, line := range strings.Split(string(data), "\n") {
				var p struct {
					ID      string `json:"id"`
					Anchors struct {
						Files []string `json:"files"`
					} `json:"anchors"`
				}
				if json.Unmarshal([]byte(line), &p) == nil && p.ID != "" {
					e.anchorFiles[p.ID] = p.Anchors.Files
				}
			}
		}
	}
	root := fn
	for root.Parent() != nil {
		root = root.Parent()
	}
	pos := root.Pos()
	if !pos.IsValid() {
		return false
	}
	file := e.fset.Position(pos).Filename
	rel, err := filepath.Rel(e.repo, file)
	if err != nil {
		return false
	}
	for _, g := range e.anchorFiles[prop] {
		if ok, _ := filepath.Match(g, rel); ok {
			return true
		}
	}
	return false
}
