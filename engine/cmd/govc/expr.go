package main

import (
	"fmt"
	"go/ast"
	"go/constant"
	"go/token"
	"go/types"
	"strconv"
	"strings"
)

// Env evaluates contract expressions to SMT terms.
type Env struct {
	fc      *FnCtx
	pkg     *types.Package
	vars    map[string]Val
	results []Val
	resName []string
	st, old *State
	local   func(string) (Val, bool)
	bound   map[string]Val
	inOld   bool
	callSite bool // evaluating a callee's contract at a call site (as opposed to the function's own contract)
	dualQuant bool // the formula being built is assumed: a forall is emitted in both index forms (see forall)
	olderLimit string // loop invariants: addresses below this term belong to objects that exist already (see older)
}

// contractEnv builds the environment for the function's own contract.
func (fc *FnCtx) contractEnv(st, old *State) *Env {
	env := &Env{fc: fc, pkg: fc.pkg, vars: map[string]Val{}, st: st, old: old, bound: map[string]Val{}}
	if fc.fn == nil {
		return env
	}
	for _, p := range fc.fn.Params {
		env.vars[p.Name()] = fc.vals[p]
	}
	for _, fv := range fc.fn.FreeVars {
		// free variables are pointers to the captured variable; expose the pointer under &name and the value lazily
		env.vars["&"+fv.Name()] = fc.vals[fv]
	}
	env.resName = fc.resultNames()
	fc.bindContractVars(env, fc.c, "cv")
	return env
}

// bindContractVars: "vars k int" of a function contract are arbitrary but fixed constants (universally quantified
// from the point of view of the proof: nothing is assumed about them).
func (fc *FnCtx) bindContractVars(env *Env, c *Contract, prefix string) {
	if c == nil || c.IsLemma {
		return
	}
	for _, v := range c.Vars {
		key := prefix + "|" + c.Func + "|" + v[0]
		val, ok := fc.contractVars[key]
		if !ok {
			e, err := parseExprSrc(v[1])
			if err != nil {
				userErr("contract variable %s: %v", v[0], err)
			}
			val = fc.freshVal(prefix+"_"+v[0], env.resolveType(e))
			if fc.contractVars == nil {
				fc.contractVars = map[string]Val{}
			}
			fc.contractVars[key] = val
		}
		env.vars[v[0]] = val
	}
}

func (fc *FnCtx) resultNames() []string {
	if fc.c != nil && len(fc.c.Results) > 0 {
		return fc.c.Results
	}
	var out []string
	res := fc.fn.Signature.Results()
	for i := 0; i < res.Len(); i++ {
		out = append(out, res.At(i).Name())
	}
	return out
}

func (env *Env) withState(st *State) *Env {
	e2 := *env
	e2.st = st
	return &e2
}

func (env *Env) evalBool(e ast.Expr) string {
	v := env.eval(e)
	if v.C != nil {
		if constant.BoolVal(v.C) {
			return "true"
		}
		return "false"
	}
	if !isBoolType(v.T) {
		userErr("contract expression %s is not boolean (type %s)", exprString(e), v.T)
	}
	return v.L[0]
}

// antecedentOf: for a clause of the form A ==> B, the formula A (audit of dead antecedents).
func (env *Env) antecedentOf(e ast.Expr) (string, bool) {
	for {
		p, ok := e.(*ast.ParenExpr)
		if !ok {
			break
		}
		e = p.X
	}
	var parts []ast.Expr
	flattenOr(e, &parts)
	for i, p := range parts {
		if isMarker(p, "__IMP__") && i > 0 {
			return env.evalOrChain(parts[:i]), true
		}
	}
	return "", false
}

func exprString(e ast.Expr) string {
	return types.ExprString(e)
}

func isMarker(e ast.Expr, name string) bool {
	id, ok := e.(*ast.Ident)
	return ok && id.Name == name
}

// flattenOr flattens a left-assoc chain of || into its operands.
func flattenOr(e ast.Expr, out *[]ast.Expr) {
	if b, ok := e.(*ast.BinaryExpr); ok && b.Op == token.LOR {
		flattenOr(b.X, out)
		flattenOr(b.Y, out)
		return
	}
	*out = append(*out, e)
}

func (env *Env) evalOrChain(parts []ast.Expr) string {
	// split at first marker
	for i, p := range parts {
		if isMarker(p, "__IMP__") {
			return implies(env.evalOrChain(parts[:i]), env.evalOrChain(parts[i+1:]))
		}
	}
	for i, p := range parts {
		if isMarker(p, "__IFF__") {
			return eq(env.evalOrChain(parts[:i]), env.evalOrChain(parts[i+1:]))
		}
	}
	var ts []string
	for _, p := range parts {
		ts = append(ts, env.evalBool(p))
	}
	return or(ts...)
}

func (env *Env) eval(e ast.Expr) Val {
	fc := env.fc
	switch x := e.(type) {
	case *ast.ParenExpr:
		return env.eval(x.X)
	case *ast.BasicLit:
		switch x.Kind {
		case token.INT:
			return Val{T: types.Typ[types.UntypedInt], C: constant.MakeFromLiteral(x.Value, token.INT, 0)}
		case token.CHAR:
			return Val{T: types.Typ[types.UntypedRune], C: constant.MakeFromLiteral(x.Value, token.CHAR, 0)}
		case token.STRING:
			s, _ := strconv.Unquote(x.Value)
			return Val{T: types.Typ[types.String], L: []string{fc.strConst(s)}}
		}
		userErr("unsupported literal %s", x.Value)
	case *ast.Ident:
		return env.evalIdent(x.Name)
	case *ast.SelectorExpr:
		return env.evalSelector(x)
	case *ast.StarExpr:
		p := env.eval(x.X)
		return fc.loadPtr(env.st, p)
	case *ast.UnaryExpr:
		if x.Op == token.AND {
			return env.addrOf(x.X)
		}
		v := env.eval(x.X)
		switch x.Op {
		case token.NOT:
			return boolVal(not(env.asBool(v)))
		case token.SUB:
			if v.C != nil {
				return Val{T: v.T, C: constant.UnaryOp(token.SUB, v.C, 0)}
			}
			return Val{T: v.T, L: []string{app("bvneg", v.L[0])}}
		case token.XOR:
			if v.C != nil {
				return Val{T: v.T, C: constant.UnaryOp(token.XOR, v.C, 0)}
			}
			return Val{T: v.T, L: []string{app("bvnot", v.L[0])}}
		}
		userErr("unsupported unary %s", x.Op)
	case *ast.BinaryExpr:
		if x.Op == token.LOR {
			var parts []ast.Expr
			flattenOr(x, &parts)
			return boolVal(env.evalOrChain(parts))
		}
		if x.Op == token.LAND {
			return boolVal(and(env.evalBool(x.X), env.evalBool(x.Y)))
		}
		a, b := env.eval(x.X), env.eval(x.Y)
		return env.binary(x.Op, a, b)
	case *ast.CallExpr:
		return env.evalCall(x)
	case *ast.IndexExpr:
		return env.evalIndex(x)
	case *ast.SliceExpr:
		return env.evalSlice(x)
	case *ast.TypeAssertExpr:
		v := env.eval(x.X)
		t := env.resolveType(x.Type)
		if isInterface(t) {
			return Val{T: t, L: v.L}
		}
		return fc.unboxIface(env.st, v, t)
	}
	userErr("unsupported contract expression %s (%T)", exprString(e), e)
	return Val{}
}

func (env *Env) asBool(v Val) string {
	if v.C != nil {
		if constant.BoolVal(v.C) {
			return "true"
		}
		return "false"
	}
	return v.L[0]
}

func (env *Env) evalIdent(name string) Val {
	fc := env.fc
	switch name {
	case "true":
		return boolVal("true")
	case "false":
		return boolVal("false")
	case "nil":
		return Val{T: types.Typ[types.UntypedNil], L: []string{bvLit(0, 64)}}
	case "result":
		if len(env.results) == 1 {
			return env.results[0]
		}
	}
	if v, ok := env.bound[name]; ok {
		return v
	}
	// locals shadow parameters (a reassigned parameter is a local at that point); old(x) means the entry value
	if env.local != nil && !env.inOld {
		if v, ok := env.local(name); ok {
			return v
		}
	}
	if v, ok := env.vars[name]; ok {
		return v
	}
	if p, ok := env.vars["&"+name]; ok {
		v := fc.loadPtr(env.st, p)
		if fc.cur != nil && len(env.bound) == 0 {
			fc.cur.assume(fc.wfFacts(v))
		}
		return v
	}
	if env.results != nil {
		for i, rn := range env.resName {
			if rn == name && rn != "" && i < len(env.results) {
				return env.results[i]
			}
		}
		if strings.HasPrefix(name, "result") {
			if i, err := strconv.Atoi(name[6:]); err == nil && i < len(env.results) {
				return env.results[i]
			}
		}
	}
	if env.local != nil {
		if v, ok := env.local(name); ok {
			return v
		}
	}
	// package-level object
	if obj := env.pkg.Scope().Lookup(name); obj != nil {
		return env.objVal(obj)
	}
	if obj := types.Universe.Lookup(name); obj != nil {
		if c, ok := obj.(*types.Const); ok {
			return Val{T: c.Type(), C: c.Val()}
		}
	}
	userErr("unknown identifier %q in contract of %s", name, fc.name)
	return Val{}
}

func (env *Env) objVal(obj types.Object) Val {
	fc := env.fc
	switch o := obj.(type) {
	case *types.Const:
		if b, ok := o.Type().Underlying().(*types.Basic); ok && b.Info()&types.IsUntyped != 0 {
			return Val{T: o.Type(), C: o.Val()}
		}
		return fc.constOfType(o.Val(), o.Type())
	case *types.Var:
		g := fc.eng.globalOf(o)
		if g == nil {
			userErr("no SSA global for %s", o)
		}
		if v, ok := fc.loadGlobal(g); ok {
			return v
		}
		gv := fc.loadPtr(env.st, fc.globalAddr(g))
		if fc.cur != nil && fc.entry != nil && len(env.bound) == 0 {
			fc.cur.assume(fc.wfFacts(gv))
			fc.cur.assume(fc.entryHeapFacts(gv))
		}
		return gv
	}
	userErr("unsupported object %s in contract", obj)
	return Val{}
}

func (env *Env) evalSelector(x *ast.SelectorExpr) Val {
	fc := env.fc
	if id, ok := x.X.(*ast.Ident); ok {
		if id.Name == "ghost" {
			return fc.ghostGet(env.st, x.Sel.Name)
		}
		// imported package? (locals, parameters and bound variables shadow package names)
		isLocal := false
		if env.local != nil {
			_, isLocal = env.local(id.Name)
		}
		if _, isVar := env.vars[id.Name]; !isVar && !isLocal {
			if _, isBound := env.bound[id.Name]; !isBound {
				if pkg := fc.eng.importedPkg(env.pkg, id.Name); pkg != nil {
					obj := pkg.Scope().Lookup(x.Sel.Name)
					if obj == nil {
						userErr("unknown %s.%s", id.Name, x.Sel.Name)
					}
					return env.objVal(obj)
				}
			}
		}
	}
	base := env.eval(x.X)
	return env.selectField(base, x.Sel.Name)
}

func (env *Env) selectField(base Val, name string) Val {
	obj, index, _ := types.LookupFieldOrMethod(base.T, true, env.pkg, name)
	if _, ok := obj.(*types.Var); !ok {
		// try with the package of the named type (unexported fields of other in-repo packages)
		if n := namedOf(base.T); n != nil && n.Obj().Pkg() != nil {
			obj, index, _ = types.LookupFieldOrMethod(base.T, true, n.Obj().Pkg(), name)
		}
	}
	if _, ok := obj.(*types.Var); !ok {
		userErr("no field %s in %s", name, base.T)
	}
	cur := base
	for _, fi := range index {
		if p, ok := cur.T.Underlying().(*types.Pointer); ok {
			cur = env.fieldOfObject(cur, p.Elem(), fi)
			// values read from the heap are well-formed Go values (slice headers, string lengths)
			if wf := env.fc.wfFacts(cur); wf != "true" && env.fc.cur != nil && len(env.bound) == 0 {
				env.fc.cur.assume(wf)
			}
			if env.fc.cur != nil && env.fc.entry != nil && len(env.bound) == 0 {
				env.fc.cur.assume(env.fc.entryHeapFacts(cur))
			}
			continue
		}
		st := cur.T.Underlying().(*types.Struct)
		off, n := fieldRange(st, fi)
		cur = Val{T: st.Field(fi).Type(), L: cur.L[off : off+n]}
	}
	return cur
}

// fieldOfObject reads field fi of the struct object (type st) pointed to by ptr.
func (env *Env) fieldOfObject(ptr Val, st types.Type, fi int) Val {
	fc := env.fc
	ref := ptr.L[0]
	ft := st.Underlying().(*types.Struct).Field(fi).Type()
	if ptrIsThin(ft) {
		if isStruct(ft) {
			return fc.loadAt(env.st, ft, fc.subRef(st, fi, ref))
		}
		return Val{T: ft, L: []string{fc.subRef(st, fi, ref)}}
	}
	out := Val{T: ft}
	for k, lf := range layout(ft) {
		arr := env.st.get(fc.fieldStateName(st, fi, k), arraySort(SortRef, lf.Sort))
		out.L = append(out.L, app("select", arr, ref))
	}
	return out
}

func namedOf(t types.Type) *types.Named {
	if p, ok := t.(*types.Pointer); ok {
		t = p.Elem()
	}
	n, _ := t.(*types.Named)
	return n
}

// typed coerces an untyped constant to type t.
func (env *Env) typed(v Val, t types.Type) Val {
	if v.C == nil {
		if b, ok := v.T.(*types.Basic); ok && b.Kind() == types.UntypedNil {
			return zeroVal(t)
		}
		return v
	}
	if b, ok := t.Underlying().(*types.Basic); ok && b.Info()&types.IsUntyped != 0 {
		t = types.Default(t)
	}
	return env.fc.constOfType(v.C, t)
}

func (env *Env) binary(op token.Token, a, b Val) Val {
	fc := env.fc
	if a.C != nil && b.C != nil {
		switch op {
		case token.EQL, token.NEQ, token.LSS, token.LEQ, token.GTR, token.GEQ:
			if constant.Compare(a.C, op, b.C) {
				return boolVal("true")
			}
			return boolVal("false")
		case token.SHL, token.SHR:
			s, _ := constant.Uint64Val(b.C)
			return Val{T: a.T, C: constant.Shift(a.C, op, uint(s))}
		case token.QUO:
			return Val{T: a.T, C: constant.BinaryOp(a.C, token.QUO_ASSIGN, b.C)}
		}
		return Val{T: a.T, C: constant.BinaryOp(a.C, op, b.C)}
	}
	if op == token.SHL || op == token.SHR {
		if a.C != nil {
			a = env.typed(a, types.Typ[types.Int])
		}
		if b.C != nil {
			b = env.typed(b, types.Typ[types.Uint])
		}
	} else {
		if a.C != nil {
			a = env.typed(a, b.T)
		}
		if b.C != nil {
			b = env.typed(b, a.T)
		}
	}
	if bt, ok := a.T.(*types.Basic); ok && bt.Kind() == types.UntypedNil {
		a, b = b, a
	}
	if bt, ok := b.T.(*types.Basic); ok && bt.Kind() == types.UntypedNil {
		if _, isPtr := a.T.Underlying().(*types.Pointer); isPtr && (op == token.EQL || op == token.NEQ) {
			r := ptrNonNil(a)
			if op == token.EQL {
				r = not(r)
			}
			return boolVal(r)
		}
		b = zeroVal(a.T)
	}
	// slices compared for identity in specs
	if _, ok := a.T.Underlying().(*types.Slice); ok && (op == token.EQL || op == token.NEQ) && len(a.L) == 4 && len(b.L) == 4 {
		var parts []string
		for i := range a.L {
			parts = append(parts, eq(a.L[i], b.L[i]))
		}
		// nil comparison: only base matters
		if b.L[0] == bvLit(0, 64) && b.L[2] == bvLit(0, 64) {
			parts = []string{eq(a.L[0], bvLit(0, 64))}
		}
		r := and(parts...)
		if op == token.NEQ {
			r = not(r)
		}
		return boolVal(r)
	}
	saved := fc.specMode
	fc.specMode = true
	defer func() { fc.specMode = saved }()
	if w1, _, ok1 := isIntType(a.T); ok1 {
		if w2, _, ok2 := isIntType(b.T); ok2 && w1 != w2 && op != token.SHL && op != token.SHR {
			userErr("contract: mismatched integer widths %s vs %s", a.T, b.T)
		}
	}
	return fc.binop(op, a, b, token.NoPos)
}

func (env *Env) resolveType(e ast.Expr) types.Type {
	switch x := e.(type) {
	case *ast.StarExpr:
		return types.NewPointer(env.resolveType(x.X))
	case *ast.Ident:
		if obj := types.Universe.Lookup(x.Name); obj != nil {
			if tn, ok := obj.(*types.TypeName); ok {
				return tn.Type()
			}
		}
		if obj := env.pkg.Scope().Lookup(x.Name); obj != nil {
			if tn, ok := obj.(*types.TypeName); ok {
				return tn.Type()
			}
		}
	case *ast.SelectorExpr:
		if id, ok := x.X.(*ast.Ident); ok {
			if pkg := env.fc.eng.importedPkg(env.pkg, id.Name); pkg != nil {
				if tn, ok := pkg.Scope().Lookup(x.Sel.Name).(*types.TypeName); ok {
					return tn.Type()
				}
			}
		}
	case *ast.ArrayType:
		if x.Len == nil {
			return types.NewSlice(env.resolveType(x.Elt))
		}
	case *ast.ParenExpr:
		return env.resolveType(x.X)
	}
	userErr("cannot resolve type %s", exprString(e))
	return nil
}

func (env *Env) tryResolveType(e ast.Expr) (t types.Type, ok bool) {
	defer func() {
		if r := recover(); r != nil {
			if _, isUser := r.(userError); isUser {
				ok = false
				return
			}
			panic(r)
		}
	}()
	return env.resolveType(e), true
}

func (env *Env) to64(v Val) string {
	if v.C != nil {
		return env.typed(v, types.Typ[types.Int]).L[0]
	}
	w, signed, ok := isIntType(v.T)
	if !ok {
		userErr("integer expected, got %s", v.T)
	}
	return env.fc.convInt(v.L[0], w, signed, 64)
}

func (env *Env) evalCall(x *ast.CallExpr) Val {
	fc := env.fc
	if id, ok := x.Fun.(*ast.Ident); ok {
		switch id.Name {
		case "len", "cap":
			v := env.eval(x.Args[0])
			switch v.T.Underlying().(type) {
			case *types.Slice:
				if id.Name == "len" {
					return Val{T: types.Typ[types.Int], L: []string{v.L[2]}}
				}
				return Val{T: types.Typ[types.Int], L: []string{v.L[3]}}
			case *types.Basic:
				return Val{T: types.Typ[types.Int], L: []string{app("strlen", v.L[0])}}
			case *types.Map:
				return Val{T: types.Typ[types.Int], L: []string{fc.mapLen(env.st, v)}}
			case *types.Chan:
				if id.Name == "cap" {
					fc.declareFunOnce("chancap", "((_ BitVec 64)) (_ BitVec 64)")
					return Val{T: types.Typ[types.Int], L: []string{app("chancap", v.L[0])}}
				}
			}
			userErr("len of %s", v.T)
		case "old":
			e2 := env.withState(env.old)
			e2.inOld = true
			return e2.eval(x.Args[0])
		case "typeis":
			v := env.eval(x.Args[0])
			t := env.resolveType(x.Args[1])
			if isInterface(t) {
				return boolVal(and(not(eq(v.L[0], bvLit(0, 16))), fc.implementsTerm(v.L[0], t)))
			}
			return boolVal(eq(v.L[0], fc.tagOf(t)))
		case "be32":
			b := env.eval(x.Args[0])
			i := env.to64(env.eval(x.Args[1]))
			return Val{T: types.Typ[types.Uint32], L: []string{env.be(b, i, 4)}}
		case "be64":
			b := env.eval(x.Args[0])
			i := env.to64(env.eval(x.Args[1]))
			return Val{T: types.Typ[types.Uint64], L: []string{env.be(b, i, 8)}}
		case "min", "max":
			a, b := env.eval(x.Args[0]), env.eval(x.Args[1])
			if a.C != nil {
				a = env.typed(a, b.T)
			}
			if b.C != nil {
				b = env.typed(b, a.T)
			}
			op := token.LSS
			if id.Name == "max" {
				op = token.GTR
			}
			c := env.binary(op, a, b).L[0]
			return Val{T: a.T, L: []string{ite(c, a.L[0], b.L[0])}}
		case "forall", "exists":
			// forall(i, body) with i ranging over int (64-bit)
			vid := x.Args[0].(*ast.Ident)
			var vt types.Type = types.Typ[types.Int]
			body := x.Args[1]
			if len(x.Args) == 3 {
				vt = env.resolveType(x.Args[1])
				body = x.Args[2]
			}
			ls := layout(vt)
			bname := qsym(fc.fresh("q_" + vid.Name))
			saved, had := env.bound[vid.Name]
			bv := Val{T: vt, L: []string{bname}}
			if ls[0].Sort == "(_ BitVec 64)" {
				// Quantify over the absolute element position of the first slice access S[i+c] instead of over i:
				// the access then reads (select E p), a pattern E-matching finds whatever shape the index
				// arithmetic of a ground term has. p -> i = p - S.off - c is a bijection on 64-bit words.
				if sx, rest := quantAnchor(body, vid.Name); sx != nil {
					if sv := env.eval(sx); len(sv.L) == 4 {
						if _, ok := sv.T.Underlying().(*types.Slice); ok {
							it := app("bvsub", bname, sv.L[1])
							for _, r := range rest {
								rv := env.typed(env.eval(r), vt)
								it = app("bvsub", it, rv.L[0])
							}
							bv = Val{T: vt, L: []string{it}}
						}
					}
				}
			}
			env.bound[vid.Name] = bv
			t := env.evalBool(body)
			out := fmt.Sprintf("(%s ((%s %s)) %s)", id.Name, bname, ls[0].Sort, t)
			if env.dualQuant && id.Name == "forall" && len(bv.L) == 1 && bv.L[0] != bname {
				// an assumed forall is stated both over the absolute cell position (above) and over the index itself:
				// the two are equivalent, each offers the solver a different trigger (a slice cell / a string or
				// other term indexed directly by the bound variable)
				b2 := qsym(fc.fresh("q_" + vid.Name))
				env.bound[vid.Name] = Val{T: vt, L: []string{b2}}
				t2 := env.evalBool(body)
				out = and(out, fmt.Sprintf("(forall ((%s %s)) %s)", b2, ls[0].Sort, t2))
			}
			if had {
				env.bound[vid.Name] = saved
			} else {
				delete(env.bound, vid.Name)
			}
			fc.hasQuant = true
			return boolVal(out)
		case "ite":
			c := env.evalBool(x.Args[0])
			a, b := env.eval(x.Args[1]), env.eval(x.Args[2])
			if a.C != nil {
				a = env.typed(a, b.T)
			}
			if b.C != nil {
				b = env.typed(b, a.T)
			}
			out := Val{T: a.T}
			for k := range a.L {
				out.L = append(out.L, ite(c, a.L[k], b.L[k]))
			}
			return out
		case "isErr":
			// isErr(e, sentinel): errors.Is over the modelled unwrap chain
			ev := env.eval(x.Args[0])
			sv := env.eval(x.Args[1])
			return boolVal(fc.errorsIs(ev, sv))
		case "locked", "rlocked":
			// locked(&x.mu): the mutex is write-held (rlocked: read-held) by the executing function
			p := env.eval(x.Args[0])
			name := "lock|w"
			if id.Name == "rlocked" {
				name = "lock|r"
			}
			arr := env.st.get(name, arraySort(SortRef, SortBool))
			return boolVal(app("select", arr, p.L[0]))
		case "attr":
			// attr(x, name): immutable ghost attribute (an int) of the object x (channel, pointer): an uninterpreted
			// function of the object's identity
			v := env.eval(x.Args[0])
			an := x.Args[1].(*ast.Ident).Name
			fname := qsym("attr!" + an)
			fc.declareFunOnce(fname, "((_ BitVec 64)) (_ BitVec 64)")
			ref := v.L[0]
			if len(v.L) == 3 {
				ref = v.L[1]
			}
			return Val{T: types.Typ[types.Int64], L: []string{app(fname, ref)}}
		case "fresh":
			// fresh(x): the object x refers to was allocated by this call (it is no object that existed before).
			// In the function's own proof: its address is not below allocbase. At a call site: it is a new
			// allocation of the caller's model, distinct from every other object.
			v := env.eval(x.Args[0])
			ref := v.L[0]
			if len(v.L) == 3 {
				ref = v.L[1]
			}
			if env.callSite {
				return boolVal(eq(ref, fc.allocRef()))
			}
			return boolVal(app("bvuge", ref, "allocbase"))
		case "older":
			// older(x), loop invariants only: the object x refers to exists already when an iteration starts, so it is
			// none of the objects the iteration allocates. Assumed at the loop head as "address below this loop's first
			// allocation"; checked at the back edge as "allocated by now" (objects of finished iterations are older for
			// the next one; sound because invariants cannot tell addresses apart except by equality and by older).
			if env.olderLimit == "" {
				userErr("older() is only meaningful in loop invariants")
			}
			v := env.eval(x.Args[0])
			ref := v.L[0]
			if len(v.L) == 3 {
				ref = v.L[1]
			}
			return boolVal(app("bvult", ref, env.olderLimit))
		case "haskey":
			m := env.eval(x.Args[0])
			mt := m.T.Underlying().(*types.Map)
			k := env.typed(env.eval(x.Args[1]), mt.Key())
			return boolVal(fc.mapHas(env.st, m, k))
		case "sprop":
			// sprop(name, s): an uninterpreted property of the string s (a predicate the contracts of a trusted library
			// give meaning to, e.g. "lexically clean" for package path); equal strings have equal properties
			an := x.Args[0].(*ast.Ident).Name
			v := env.typed(env.eval(x.Args[1]), types.Typ[types.String])
			fname := qsym("sprop!" + an)
			fc.declareFunOnce(fname, "("+SortStr+") Bool")
			return boolVal(app(fname, v.L[0]))
		case "samearray":
			a, b := env.eval(x.Args[0]), env.eval(x.Args[1])
			return boolVal(eq(a.L[0], b.L[0]))
		case "samebytes":
			// samebytes(a, b): both slices/strings have equal length and equal contents
			a, b := env.eval(x.Args[0]), env.eval(x.Args[1])
			return boolVal(fc.sameBytes(env.st, a, b))
		}
		// named predicate
		if p := fc.eng.preds[env.pkg.Name()+"."+id.Name]; p != nil {
			if len(p.Params) != len(x.Args) {
				userErr("pred %s: wrong number of arguments", id.Name)
			}
			sub := &Env{fc: fc, pkg: env.pkg, vars: map[string]Val{}, st: env.st, old: env.old, bound: env.bound, inOld: env.inOld, callSite: env.callSite, dualQuant: env.dualQuant}
			for i, a := range x.Args {
				v := env.eval(a)
				pe, err := parseExprSrc(p.Params[i][1])
				if err != nil {
					userErr("pred %s: %v", id.Name, err)
				}
				v = env.typed(v, env.resolveType(pe))
				sub.vars[p.Params[i][0]] = v
			}
			return boolVal(sub.evalBool(p.Body))
		}
		// conversion?
		if t, ok := env.tryResolveType(x.Fun); ok && len(x.Args) == 1 {
			return env.convert(env.eval(x.Args[0]), t)
		}
		// spec function defined by a "pure" in-package function contract
		if v, ok := env.callSpecFunc(id.Name, x.Args); ok {
			return v
		}
		userErr("unknown function %s in contract", id.Name)
	}
	if t, ok := env.tryResolveType(x.Fun); ok && len(x.Args) == 1 {
		return env.convert(env.eval(x.Args[0]), t)
	}
	if sel, ok := x.Fun.(*ast.SelectorExpr); ok && len(x.Args) == 0 {
		recv := env.eval(sel.X)
		return env.specMethod(recv, sel.Sel.Name)
	}
	userErr("unsupported call %s in contract", exprString(x))
	return Val{}
}

func (env *Env) convert(v Val, t types.Type) Val {
	fc := env.fc
	if v.C != nil {
		return fc.constOfType(v.C, t)
	}
	fw, fsigned, fok := isIntType(v.T)
	tw, _, tok := isIntType(t)
	if fok && tok {
		return Val{T: t, L: []string{fc.convInt(v.L[0], fw, fsigned, tw)}}
	}
	if len(v.L) == nLeaves(t) {
		return Val{T: t, L: v.L}
	}
	if isInterface(t) {
		return fc.makeIface(v, t)
	}
	userErr("unsupported conversion %s -> %s in contract", v.T, t)
	return Val{}
}

func (env *Env) evalIndex(x *ast.IndexExpr) Val {
	fc := env.fc
	base := env.eval(x.X)
	switch u := base.T.Underlying().(type) {
	case *types.Slice:
		i := env.to64(env.eval(x.Index))
		et := u.Elem()
		pos := app("bvadd", base.L[1], i)
		if len(env.bound) > 0 {
			pos = simplifySum(pos)
		}
		if ptrIsThin(et) {
			return fc.loadAt(env.st, et, fc.eltRef(base.L[0], pos))
		}
		return fc.loadFat(env.st, et, fatPtr{bvLit(1, 16), base.L[0], pos})
	case *types.Basic:
		i := env.to64(env.eval(x.Index))
		return Val{T: types.Typ[types.Uint8], L: []string{app("strat", base.L[0], i)}}
	case *types.Map:
		k := env.eval(x.Index)
		k = env.typed(k, u.Key())
		return fc.mapGet(env.st, base, k)
	case *types.Pointer:
		// pointer to an array (a local array variable is named by its address)
		if at, ok := u.Elem().Underlying().(*types.Array); ok && !ptrIsThin(at.Elem()) {
			i := env.to64(env.eval(x.Index))
			return fc.loadFat(env.st, at.Elem(), fatPtr{bvLit(1, 16), base.L[0], i})
		}
	}
	userErr("cannot index %s", base.T)
	return Val{}
}

func (env *Env) evalSlice(x *ast.SliceExpr) Val {
	base := env.eval(x.X)
	if _, ok := base.T.Underlying().(*types.Slice); !ok {
		userErr("slice expression on %s", base.T)
	}
	lo := bvLit(0, 64)
	hi := base.L[2]
	mx := base.L[3]
	if x.Low != nil {
		lo = env.to64(env.eval(x.Low))
	}
	if x.High != nil {
		hi = env.to64(env.eval(x.High))
	}
	if x.Max != nil {
		mx = env.to64(env.eval(x.Max))
	}
	return Val{T: base.T, L: []string{base.L[0], app("bvadd", base.L[1], lo), app("bvsub", hi, lo), app("bvsub", mx, lo)}}
}

// be reads n big-endian bytes of a byte slice or string at index i.
func (env *Env) be(b Val, i string, n int) string {
	fc := env.fc
	var parts []string
	for k := 0; k < n; k++ {
		idx := app("bvadd", i, bvLit(uint64(k), 64))
		parts = append(parts, fc.byteAt(env.st, b, idx))
	}
	return app("concat", parts...)
}

func (fc *FnCtx) byteAt(st *State, b Val, idx string) string {
	if isStringType(b.T) {
		return app("strat", b.L[0], idx)
	}
	arr := st.get("E|uint8|0", arraySort(SortRef, arraySort(bvSort(64), bvSort(8))))
	return app("select", app("select", arr, b.L[0]), app("bvadd", b.L[1], idx))
}

// specMethod evaluates recv.m() for a side-effect free, straight-line method m (e.g. id(), readonly(), getPath()):
// the method bodies are inlined; for an interface receiver the result is the case split over the known dynamic types.
func (env *Env) specMethod(recv Val, mname string) Val {
	fc := env.fc
	fc.specDepth++
	defer func() { fc.specDepth-- }()
	saved := fc.cur
	savedN := len(fc.obls)
	defer func() { fc.obls = fc.obls[:savedN] }()
	if !isInterface(recv.T) {
		sel := fc.eng.prog.MethodSets.MethodSet(recv.T).Lookup(env.pkg, mname)
		if sel == nil {
			userErr("no method %s on %s", mname, recv.T)
		}
		fn := fc.eng.prog.MethodValue(sel)
		if fn == nil || !fc.eng.inlineable(fn) || !fc.eng.summary(fn).empty() {
			userErr("method %s of %s is not a pure straight-line method", mname, recv.T)
		}
		sub := env.st.derive()
		fc.cur = sub
		r := fc.inline(fn, []Val{recv}, nil, token.NoPos, callResultTypeOf(fn))
		fc.cur = saved
		return r
	}
	iface := recv.T.Underlying().(*types.Interface)
	var resT types.Type
	for i := 0; i < iface.NumMethods(); i++ {
		if iface.Method(i).Name() == mname {
			sig := iface.Method(i).Type().(*types.Signature)
			if sig.Results().Len() != 1 {
				userErr("spec method %s must have one result", mname)
			}
			resT = sig.Results().At(0).Type()
		}
	}
	if resT == nil {
		userErr("no method %s in %s", mname, recv.T)
	}
	// result as one case-split term over the dynamic type: two evaluations on the same receiver and heap are
	// syntactically equal; unknown dynamic types fall back to an uninterpreted function of (tag, payload)
	ls := layout(resT)
	res := Val{T: resT, L: make([]string, len(ls))}
	for k, lf := range ls {
		fname := qsym(fmt.Sprintf("specdef!%s!%s!%d", typeKey(recv.T), mname, k))
		fc.declareFunOnce(fname, "("+SortTag+" (_ BitVec 64)) "+lf.Sort)
		res.L[k] = app(fname, recv.L[0], recv.L[1])
	}
	var facts []string
	for _, kt := range fc.eng.knownTypes() {
		if !types.Implements(kt, iface) {
			continue
		}
		sel := fc.eng.prog.MethodSets.MethodSet(kt).Lookup(env.pkg, mname)
		if sel == nil {
			continue
		}
		fn := fc.eng.prog.MethodValue(sel)
		if fn == nil || !fc.eng.inlineable(fn) || !fc.eng.summary(fn).empty() {
			continue
		}
		cond := eq(recv.L[0], fc.tagOf(kt))
		sub := env.st.derive()
		sub.assume(cond)
		fc.cur = sub
		rv := fc.unboxIface(env.st, recv, kt)
		r := fc.inline(fn, []Val{rv}, nil, token.NoPos, resT)
		fc.cur = saved
		for k := range r.L {
			res.L[k] = ite(cond, r.L[k], res.L[k])
		}
	}
	res = fc.nameVal(fc.fresh("spec_"+mname), res)
	facts = append(facts, fc.wfFacts(res))
	if fc.cur != nil {
		fc.cur.assume(and(facts...))
	}
	return res
}

// addrOf evaluates &x.f for a field selection through a pointer.
func (env *Env) addrOf(e ast.Expr) Val {
	sel, ok := e.(*ast.SelectorExpr)
	if !ok {
		userErr("address-of is only supported on field selections: &%s", exprString(e))
	}
	var base Val
	if inner, ok := sel.X.(*ast.SelectorExpr); ok {
		// &x.a.f: when x.a is a struct value (an embedded or nested struct), go through its address
		if tv := env.eval(sel.X); func() bool { _, isPtr := tv.T.Underlying().(*types.Pointer); return isPtr }() {
			base = tv
		} else {
			base = env.addrOf(inner)
		}
	} else {
		base = env.eval(sel.X)
	}
	obj, index, _ := types.LookupFieldOrMethod(base.T, true, env.pkg, sel.Sel.Name)
	if _, isVar := obj.(*types.Var); !isVar {
		if n := namedOf(base.T); n != nil && n.Obj().Pkg() != nil {
			obj, index, _ = types.LookupFieldOrMethod(base.T, true, n.Obj().Pkg(), sel.Sel.Name)
		}
	}
	if _, isVar := obj.(*types.Var); !isVar {
		userErr("no field %s in %s", sel.Sel.Name, base.T)
	}
	cur := base
	for i, fi := range index {
		p, isPtr := cur.T.Underlying().(*types.Pointer)
		if !isPtr {
			userErr("&%s: base is not addressable through a pointer", exprString(e))
		}
		st := p.Elem()
		ft := st.Underlying().(*types.Struct).Field(fi).Type()
		last := i == len(index)-1
		if ptrIsThin(ft) {
			r := env.fc.subRef(st, fi, cur.L[0])
			// the same ground facts doFieldAddr states: owner and field id of the sub-object (two different fields of
			// one object, or fields of different objects, have different addresses)
			k := env.fc.eng.fieldID(st, fi)
			env.fc.axiom(and(eq(app("sub_owner", r), cur.L[0]), eq(app("sub_fid", r), bvLit(uint64(k), 16))))
			cur = Val{T: types.NewPointer(ft), L: []string{r}}
			continue
		}
		if !last {
			// pointer-typed intermediate field: load it
			cur = env.fieldOfObject(cur, st, fi)
			continue
		}
		k := env.fc.eng.fieldID(st, fi)
		cur = Val{T: types.NewPointer(ft), L: []string{bvLit(uint64(k), 16), cur.L[0], bvLit(0, 64)}}
	}
	return cur
}

// quantAnchor finds the first index expression S[e] in body where e is a sum with exactly one summand equal to
// the identifier name and neither S nor the other summands mention name; it returns S and the other summands.
func quantAnchor(body ast.Expr, name string) (ast.Expr, []ast.Expr) {
	mentions := func(e ast.Expr) bool {
		found := false
		ast.Inspect(e, func(n ast.Node) bool {
			if id, ok := n.(*ast.Ident); ok && id.Name == name {
				found = true
			}
			return !found
		})
		return found
	}
	var sx ast.Expr
	var rest []ast.Expr
	// variables bound by quantifiers nested in body: S and the other summands must not depend on them either
	inner := map[string]bool{}
	ast.Inspect(body, func(n ast.Node) bool {
		if call, ok := n.(*ast.CallExpr); ok && len(call.Args) >= 2 {
			if id, ok := call.Fun.(*ast.Ident); ok && (id.Name == "forall" || id.Name == "exists") {
				if v, ok := call.Args[0].(*ast.Ident); ok {
					inner[v.Name] = true
				}
			}
		}
		return true
	})
	mentionsInner := func(e ast.Expr) bool {
		found := false
		ast.Inspect(e, func(n ast.Node) bool {
			if id, ok := n.(*ast.Ident); ok && inner[id.Name] {
				found = true
			}
			return !found
		})
		return found
	}
	ast.Inspect(body, func(n ast.Node) bool {
		if sx != nil {
			return false
		}
		ix, ok := n.(*ast.IndexExpr)
		if !ok || mentions(ix.X) || mentionsInner(ix.X) {
			return true
		}
		var leaves []ast.Expr
		var flat func(e ast.Expr)
		flat = func(e ast.Expr) {
			switch e := e.(type) {
			case *ast.ParenExpr:
				flat(e.X)
				return
			case *ast.BinaryExpr:
				if e.Op == token.ADD {
					flat(e.X)
					flat(e.Y)
					return
				}
			}
			leaves = append(leaves, e)
		}
		flat(ix.Index)
		n1 := 0
		var others []ast.Expr
		for _, l := range leaves {
			if id, ok := l.(*ast.Ident); ok && id.Name == name {
				n1++
			} else if mentions(l) || mentionsInner(l) {
				return true
			} else {
				others = append(others, l)
			}
		}
		if n1 != 1 {
			return true
		}
		sx, rest = ix.X, others
		return false
	})
	return sx, rest
}
