package main

import (
	"fmt"
	"go/ast"
	"go/parser"
	"os"
	"regexp"
	"strconv"
	"strings"
)

type userError string

func userErr(format string, args ...interface{}) {
	panic(userError(fmt.Sprintf(format, args...)))
}

// Contract holds the //@ clauses of one function.
type Contract struct {
	Func        string
	Pkg         string
	File        string
	Line        int
	Results     []string
	Requires    []ast.Expr
	RequiresSrc []string
	Ensures     []ast.Expr
	EnsuresSrc  []string
	Modifies    []string // raw items
	HasModifies bool
	LoopInv     map[int][]ast.Expr
	LoopInvSrc  map[int][]string
	LoopGhost   map[int][]string
	LoopAssume  map[int][]ast.Expr
	LoopAssumeSrc map[int][]string
	Asserts     []*AnchorClause
	Trusted     bool
	IsLemma     bool
	Vars        [][2]string // lemma variables: name, type
	Pure        bool
	MayPanic    bool
	AssumeFrame bool
	IsFunction  bool
	Content     bool
	Callbacks   map[string]bool
	DeadCode    map[string]bool
	AllocBound  ast.Expr
	Props       []string
	GhostUpd    []*AnchorClause
	Interf      []*AnchorClause
	EnsuresContent []bool   // parallel to Ensures
	ContentProps   []string // content mode only when verifying one of these properties (empty: always)
	ChanInv     map[string]ast.Expr // channel class name -> invariant over "m"
	ChanNoDrop  map[string]bool
	ChanOnce    map[string]bool // channel <class> closeonce
	Assumes     []*AnchorClause
	Lines       []string
}

// AnchorClause is an assertion / ghost update attached to a program point "call g#k" etc.
type AnchorClause struct {
	Anchor string // e.g. "call readyPacket#1", "send#1", "entry"
	When   string // "before" or "after"
	Expr   ast.Expr
	Src    string
	Ghost  string // for updates: variable name
}

func (c *Contract) loopGhostWrites(ord int) []string {
	if c == nil {
		return nil
	}
	return c.LoopGhost[ord]
}

// GhostVar is a package-level ghost variable declaration: //@ ghost var name type
type GhostVar struct {
	Name string
	Type string
}

// Pred is a named predicate: //@ pred name(a T, b U) = expr
type Pred struct {
	Name   string
	Params [][2]string
	Body   ast.Expr
	Src    string
	Pkg    string
}

type ContractFile struct {
	Preds     []*Pred
	Pkg       string
	Contracts map[string]*Contract
	Ghosts    []GhostVar
	Lemmas    []*Lemma
	Axioms    []string
	Extends   []*Contract
}

type Lemma struct {
	Name string
	Src  string
	Expr ast.Expr
	Pkg  string
}

var reFunc = regexp.MustCompile(`^func\s+(.+?)\s*$`)

// parseExprSrc parses a contract expression. `==>` and `<==>` are rewritten into marker disjunctions
// that the evaluator recognises (|| has the lowest Go precedence, so grouping is preserved).
func parseExprSrc(src string) (ast.Expr, error) {
	s := strings.ReplaceAll(src, "<==>", " || __IFF__ || ")
	s = strings.ReplaceAll(s, "==>", " || __IMP__ || ")
	e, err := parser.ParseExpr(s)
	if err != nil {
		return nil, fmt.Errorf("cannot parse %q: %v", src, err)
	}
	return e, nil
}

func parseContractFile(path, pkg string) (*ContractFile, error) {
	data, err := os.ReadFile(path)
	if err != nil {
		return nil, err
	}
	cf := &ContractFile{Pkg: pkg, Contracts: map[string]*Contract{}}
	var cur *Contract
	lines := strings.Split(string(data), "\n")
	for i := 0; i < len(lines); i++ {
		ln := strings.TrimSpace(lines[i])
		if !strings.HasPrefix(ln, "//@") {
			continue
		}
		body := strings.TrimSpace(strings.TrimPrefix(ln, "//@"))
		// continuation lines: trailing backslash
		for strings.HasSuffix(body, "\\") && i+1 < len(lines) {
			i++
			nxt := strings.TrimSpace(lines[i])
			nxt = strings.TrimSpace(strings.TrimPrefix(nxt, "//@"))
			body = strings.TrimSuffix(body, "\\") + " " + nxt
		}
		if body == "" {
			continue
		}
		lineNo := i + 1
		fail := func(err error) error { return fmt.Errorf("%s:%d: %v", path, lineNo, err) }
		if strings.HasPrefix(body, "extend func ") {
			// extend func NAME: further clauses for a function whose contract is written elsewhere (merged at load)
			name := strings.TrimSpace(strings.TrimPrefix(body, "extend func "))
			cur = &Contract{Func: name, Pkg: pkg, File: path, Line: lineNo, LoopInv: map[int][]ast.Expr{}, LoopInvSrc: map[int][]string{}, LoopGhost: map[int][]string{}, ChanInv: map[string]ast.Expr{}}
			cf.Extends = append(cf.Extends, cur)
			continue
		}
		if m := reFunc.FindStringSubmatch(body); m != nil {
			name := m[1]
			cur = &Contract{Func: name, Pkg: pkg, File: path, Line: lineNo, LoopInv: map[int][]ast.Expr{}, LoopInvSrc: map[int][]string{}, LoopGhost: map[int][]string{}, ChanInv: map[string]ast.Expr{}}
			if _, dup := cf.Contracts[name]; dup {
				return nil, fail(fmt.Errorf("duplicate contract for %s", name))
			}
			cf.Contracts[name] = cur
			continue
		}
		word, rest := splitWord(body)
		if word == "pred" {
			eqi := strings.Index(rest, "=")
			lp, rp := strings.Index(rest, "("), strings.Index(rest, ")")
			if eqi < 0 || lp < 0 || rp < lp || rp > eqi {
				return nil, fail(fmt.Errorf("pred name(params) = expr"))
			}
			p := &Pred{Name: strings.TrimSpace(rest[:lp]), Src: strings.TrimSpace(rest[eqi+1:]), Pkg: pkg}
			for _, ps := range strings.Split(rest[lp+1:rp], ",") {
				ps = strings.TrimSpace(ps)
				if ps == "" {
					continue
				}
				n, t := splitWord(ps)
				p.Params = append(p.Params, [2]string{n, t})
			}
			e, err := parseExprSrc(p.Src)
			if err != nil {
				return nil, fail(err)
			}
			p.Body = e
			cf.Preds = append(cf.Preds, p)
			cur = nil
			continue
		}
		if word == "lemma" && !strings.Contains(rest, ":") {
			name := "lemma:" + strings.TrimSpace(rest)
			cur = &Contract{Func: name, Pkg: pkg, File: path, Line: lineNo, IsLemma: true, LoopInv: map[int][]ast.Expr{}, LoopInvSrc: map[int][]string{}, LoopGhost: map[int][]string{}, ChanInv: map[string]ast.Expr{}}
			if _, dup := cf.Contracts[name]; dup {
				return nil, fail(fmt.Errorf("duplicate lemma %s", name))
			}
			cf.Contracts[name] = cur
			continue
		}
		if word == "ghost" {
			w2, r2 := splitWord(rest)
			if w2 == "var" {
				n, t := splitWord(r2)
				cf.Ghosts = append(cf.Ghosts, GhostVar{n, strings.TrimSpace(t)})
				continue
			}
		}
		if word == "lemma" {
			idx := strings.Index(rest, ":")
			if idx < 0 {
				return nil, fail(fmt.Errorf("lemma needs name: formula"))
			}
			e, err := parseExprSrc(rest[idx+1:])
			if err != nil {
				return nil, fail(err)
			}
			cf.Lemmas = append(cf.Lemmas, &Lemma{Name: strings.TrimSpace(rest[:idx]), Src: strings.TrimSpace(rest[idx+1:]), Expr: e, Pkg: pkg})
			continue
		}
		if cur == nil {
			return nil, fail(fmt.Errorf("clause outside a func block: %s", body))
		}
		cur.Lines = append(cur.Lines, body)
		switch word {
		case "vars":
			for _, r := range strings.Split(rest, ",") {
				n, t := splitWord(r)
				cur.Vars = append(cur.Vars, [2]string{n, t})
			}
		case "results":
			for _, r := range strings.Split(rest, ",") {
				cur.Results = append(cur.Results, strings.TrimSpace(r))
			}
		case "requires":
			e, err := parseExprSrc(rest)
			if err != nil {
				return nil, fail(err)
			}
			cur.Requires = append(cur.Requires, e)
			cur.RequiresSrc = append(cur.RequiresSrc, rest)
		case "ensures", "content-ensures":
			// content-ensures: a postcondition about byte contents; proved only when the function is verified in
			// content mode and assumed only by callers that are themselves verified in content mode
			e, err := parseExprSrc(rest)
			if err != nil {
				return nil, fail(err)
			}
			cur.Ensures = append(cur.Ensures, e)
			cur.EnsuresSrc = append(cur.EnsuresSrc, rest)
			cur.EnsuresContent = append(cur.EnsuresContent, word == "content-ensures")
		case "modifies":
			cur.HasModifies = true
			if strings.TrimSpace(rest) != "nothing" {
				for _, r := range strings.Split(rest, ",") {
					cur.Modifies = append(cur.Modifies, strings.TrimSpace(r))
				}
			}
		case "loop":
			kstr, r2 := splitWord(rest)
			k, err := strconv.Atoi(kstr)
			if err != nil {
				return nil, fail(fmt.Errorf("loop ordinal: %v", err))
			}
			w3, r3 := splitWord(r2)
			switch w3 {
			case "invariant":
				e, err := parseExprSrc(r3)
				if err != nil {
					return nil, fail(err)
				}
				cur.LoopInv[k] = append(cur.LoopInv[k], e)
				cur.LoopInvSrc[k] = append(cur.LoopInvSrc[k], r3)
			case "ghost":
				for _, g := range strings.Split(r3, ",") {
					cur.LoopGhost[k] = append(cur.LoopGhost[k], strings.TrimSpace(g))
				}
			case "assume":
				e, err := parseExprSrc(r3)
				if err != nil {
					return nil, fail(err)
				}
				if cur.LoopAssume == nil {
					cur.LoopAssume = map[int][]ast.Expr{}
					cur.LoopAssumeSrc = map[int][]string{}
				}
				cur.LoopAssume[k] = append(cur.LoopAssume[k], e)
				cur.LoopAssumeSrc[k] = append(cur.LoopAssumeSrc[k], r3)
			default:
				return nil, fail(fmt.Errorf("unknown loop clause %q", w3))
			}
		case "assume":
			// assume after make <chan var> : expr   -- ghost attributes of a freshly made channel
			when, r2 := splitWord(rest)
			idx := strings.Index(r2, ":")
			// also: assume after call (*sync.Mutex).Lock#k : inv  -- a monitor invariant, assumed at acquisition; the
			// contract must re-establish it (ensures) in every function that takes the lock
			r2t := strings.TrimSpace(r2)
			// also: assume after call f#k : expr  -- an explicit assumption about the outcome of one call (listed as such
			// in the evidence); used where the code itself relies on it (e.g. ignores the error of that call)
			if idx < 0 || when != "after" || !(strings.HasPrefix(r2t, "make ") || strings.HasPrefix(r2t, "call ")) {
				return nil, fail(fmt.Errorf("assume after make <channel> : expr   |   assume after call f#k : expr"))
			}
			e, err := parseExprSrc(strings.TrimSpace(r2[idx+1:]))
			if err != nil {
				return nil, fail(err)
			}
			cur.Assumes = append(cur.Assumes, &AnchorClause{Anchor: strings.TrimSpace(r2[:idx]), When: when, Expr: e, Src: strings.TrimSpace(r2[idx+1:])})
		case "assert", "update":
			// assert before|after <anchor> : expr        update after <anchor> : ghost.x = expr
			when, r2 := splitWord(rest)
			idx := strings.Index(r2, ":")
			if idx < 0 || (when != "before" && when != "after") {
				return nil, fail(fmt.Errorf("%s needs before|after <anchor> : expr", word))
			}
			anchor := strings.TrimSpace(r2[:idx])
			src := strings.TrimSpace(r2[idx+1:])
			ac := &AnchorClause{Anchor: anchor, When: when, Src: src}
			if word == "update" {
				eqi := strings.Index(src, "=")
				if eqi < 0 {
					return nil, fail(fmt.Errorf("update needs ghost.x = expr"))
				}
				ac.Ghost = strings.TrimPrefix(strings.TrimSpace(src[:eqi]), "ghost.")
				src = src[eqi+1:]
			}
			e, err := parseExprSrc(src)
			if err != nil {
				return nil, fail(err)
			}
			ac.Expr = e
			if word == "assert" {
				cur.Asserts = append(cur.Asserts, ac)
			} else {
				cur.GhostUpd = append(cur.GhostUpd, ac)
			}
		case "interference":
			// interference after <anchor> : <modifies items>
			// other goroutines may have changed this shared state while the anchored operation blocked: the items
			// are havocked at that point (knowledge is only removed, so the clause cannot make a proof unsound)
			when, r2 := splitWord(rest)
			idx := strings.Index(r2, ":")
			if idx < 0 || (when != "before" && when != "after") {
				return nil, fail(fmt.Errorf("interference needs before|after <anchor> : items"))
			}
			ac := &AnchorClause{Anchor: strings.TrimSpace(r2[:idx]), When: when, Src: strings.TrimSpace(r2[idx+1:])}
			cur.Interf = append(cur.Interf, ac)
		case "trusted":
			cur.Trusted = true
		case "pure":
			cur.Pure = true
			cur.HasModifies = true
		case "maypanic":
			cur.MayPanic = true
		case "assume-frame":
			cur.AssumeFrame = true
		case "content":
			// byte-content axioms for append/copy/string conversions inside this function (quantified)
			cur.Content = true
			for _, r := range strings.Split(rest, ",") {
				if r = strings.TrimSpace(r); r != "" {
					cur.ContentProps = append(cur.ContentProps, r)
				}
			}
		case "function":
			// result is a function of the arguments only (no heap reads or writes): calls are modelled by an
			// uninterpreted function constrained by the postconditions; checked: the body must not touch the heap
			cur.IsFunction = true
			cur.Pure = true
			cur.HasModifies = true
		case "callback":
			// callback <param> modifies nothing
			n, r2 := splitWord(rest)
			if strings.TrimSpace(r2) != "modifies nothing" {
				return nil, fail(fmt.Errorf("callback <param> modifies nothing"))
			}
			if cur.Callbacks == nil {
				cur.Callbacks = map[string]bool{}
			}
			cur.Callbacks[n] = true
		case "deadcode":
			if cur.DeadCode == nil {
				cur.DeadCode = map[string]bool{}
			}
			for _, r := range strings.Split(rest, ",") {
				cur.DeadCode[strings.TrimSpace(r)] = true
			}
		case "alloc-bound":
			e, err := parseExprSrc(rest)
			if err != nil {
				return nil, fail(err)
			}
			cur.AllocBound = e
		case "property":
			for _, r := range strings.Split(rest, ",") {
				cur.Props = append(cur.Props, strings.TrimSpace(r))
			}
		case "channel":
			// channel <class> invariant <expr over m>
			name, r2 := splitWord(rest)
			w3, r3 := splitWord(r2)
			if w3 == "nodrop" {
				// every send on this channel class must be an unconditional send statement (not a select case)
				if cur.ChanNoDrop == nil {
					cur.ChanNoDrop = map[string]bool{}
				}
				cur.ChanNoDrop[name] = true
				continue
			}
			if w3 == "closeonce" {
				// the channel is closed by this function only, at most once: close(ch) must be shown not to have
				// happened yet (a non-blocking receive that takes its default branch shows it)
				if cur.ChanOnce == nil {
					cur.ChanOnce = map[string]bool{}
				}
				cur.ChanOnce[name] = true
				continue
			}
			if w3 != "invariant" {
				return nil, fail(fmt.Errorf("channel <name> invariant <expr> | channel <name> nodrop | channel <name> closeonce"))
			}
			e, err := parseExprSrc(r3)
			if err != nil {
				return nil, fail(err)
			}
			cur.ChanInv[name] = e
		default:
			return nil, fail(fmt.Errorf("unknown clause %q", word))
		}
	}
	return cf, nil
}

func splitWord(s string) (string, string) {
	s = strings.TrimSpace(s)
	i := strings.IndexAny(s, " \t")
	if i < 0 {
		return s, ""
	}
	return s[:i], strings.TrimSpace(s[i+1:])
}

// mergeExtension appends the clauses of an "extend func" block to the base contract.
func (c *Contract) mergeExtension(x *Contract) {
	for _, p := range x.Props {
		if !contains(c.Props, p) {
			c.Props = append(c.Props, p)
		}
	}
	if len(c.Results) == 0 {
		c.Results = x.Results
	}
	c.Requires = append(c.Requires, x.Requires...)
	c.RequiresSrc = append(c.RequiresSrc, x.RequiresSrc...)
	for len(c.EnsuresContent) < len(c.Ensures) {
		c.EnsuresContent = append(c.EnsuresContent, false)
	}
	c.Ensures = append(c.Ensures, x.Ensures...)
	c.EnsuresSrc = append(c.EnsuresSrc, x.EnsuresSrc...)
	c.EnsuresContent = append(c.EnsuresContent, x.EnsuresContent...)
	for k, v := range x.LoopInv {
		c.LoopInv[k] = append(c.LoopInv[k], v...)
		c.LoopInvSrc[k] = append(c.LoopInvSrc[k], x.LoopInvSrc[k]...)
	}
	for k, v := range x.LoopGhost {
		c.LoopGhost[k] = append(c.LoopGhost[k], v...)
	}
	if x.HasModifies {
		c.HasModifies = true
		c.Modifies = append(c.Modifies, x.Modifies...)
	}
	c.Asserts = append(c.Asserts, x.Asserts...)
	c.GhostUpd = append(c.GhostUpd, x.GhostUpd...)
	c.Interf = append(c.Interf, x.Interf...)
	c.Assumes = append(c.Assumes, x.Assumes...)
	c.Vars = append(c.Vars, x.Vars...)
	if x.Content {
		if c.Content && len(c.ContentProps) == 0 {
			// already unconditional
		} else if len(x.ContentProps) == 0 {
			c.Content, c.ContentProps = true, nil
		} else {
			c.Content = true
			c.ContentProps = append(c.ContentProps, x.ContentProps...)
		}
	}
}
