package main

import (
	"fmt"
	"sort"
	"strings"
)

// NameSet is a set of state-variable names (heap arrays, ghost variables).
type NameSet struct {
	All   bool
	Names map[string]bool
	Why   string
}

func newNameSet() *NameSet { return &NameSet{Names: map[string]bool{}} }

func (s *NameSet) Add(n string) {
	if s.Names == nil {
		s.Names = map[string]bool{}
	}
	s.Names[n] = true
}

func (s *NameSet) AddAll(o *NameSet) bool {
	changed := false
	if o == nil {
		return false
	}
	if o.All && !s.All {
		s.All = true
		s.Why = o.Why
		changed = true
	}
	for n := range o.Names {
		if !s.Names[n] {
			s.Add(n)
			changed = true
		}
	}
	return changed
}

func (s *NameSet) Has(n string) bool {
	if s == nil {
		return false
	}
	return s.All || s.Names[n]
}

func (s *NameSet) Sorted() []string {
	var out []string
	for n := range s.Names {
		out = append(out, n)
	}
	sort.Strings(out)
	return out
}

func (s *NameSet) String() string {
	if s.All {
		return "ALL(" + s.Why + ")"
	}
	return strings.Join(s.Sorted(), ",")
}

// State is a symbolic store: state-variable name -> SMT term, plus the guard
// (path condition) under which this program point is reached.
type State struct {
	fc    *FnCtx
	id    int
	m     map[string]string
	guard string

	// exactly one of the following describes where unknown names come from
	root     bool     // base symbols name@<id>
	fallback *State   // unmodified names are looked up here
	havoc    *NameSet // names havocked relative to fallback (fresh symbols)
	parents  []*State // merge: ite over parents by conds
	conds    []string
	// havocCond, if set, gives the condition under which a havocked name really changes (else it keeps its value)
	havocCond func(name string) string
}

func (fc *FnCtx) newRootState(guard string) *State {
	fc.stateCtr++
	return &State{fc: fc, id: fc.stateCtr, m: map[string]string{}, guard: guard, root: true}
}

// derive returns a new state that sees all of s's bindings (copy-on-write by chaining).
func (s *State) derive() *State {
	s.fc.stateCtr++
	return &State{fc: s.fc, id: s.fc.stateCtr, m: map[string]string{}, guard: s.guard, fallback: s, havoc: nil}
}

// havocked returns a new state where the names in hs are fresh.
func (s *State) havocked(hs *NameSet) *State {
	s.fc.recordWrites(hs)
	return s.havockedSilently(hs)
}

// havockedSilently: loop-header havoc; the names are those the body writes anyway, so nothing new is recorded.
func (s *State) havockedSilently(hs *NameSet) *State {
	n := s.derive()
	n.havoc = hs
	return n
}

func (fc *FnCtx) mergeStates(parents []*State, conds []string, guard string) *State {
	if len(parents) == 1 {
		n := parents[0].derive()
		n.guard = guard
		return n
	}
	fc.stateCtr++
	return &State{fc: fc, id: fc.stateCtr, m: map[string]string{}, guard: guard, parents: parents, conds: conds}
}

func (s *State) get(name, sortStr string) string {
	if t, ok := s.m[name]; ok {
		return t
	}
	s.fc.noteStateSort(name, sortStr)
	var t string
	switch {
	case s.root:
		t = s.fc.declare(fmt.Sprintf("%s@%d", name, s.id), sortStr)
	case s.parents != nil:
		vals := make([]string, len(s.parents))
		same := true
		for i, p := range s.parents {
			vals[i] = p.get(name, sortStr)
			if vals[i] != vals[0] {
				same = false
			}
		}
		if same {
			t = vals[0]
		} else {
			e := vals[len(vals)-1]
			for i := len(vals) - 2; i >= 0; i-- {
				e = ite(s.conds[i], vals[i], e)
			}
			t = s.fc.define(fmt.Sprintf("%s@m%d", name, s.id), sortStr, e)
		}
	case s.havoc != nil && s.havoc.Has(name):
		t = s.fc.declare(fmt.Sprintf("%s@h%d", name, s.id), sortStr)
		if s.havocCond != nil {
			c := s.havocCond(name)
			if c != "true" {
				t = s.fc.define(fmt.Sprintf("%s@hc%d", name, s.id), sortStr, ite(c, t, s.fallback.get(name, sortStr)))
			}
		}
	default:
		t = s.fallback.get(name, sortStr)
	}
	s.m[name] = t
	return t
}

func (s *State) set(name, sortStr, term string) {
	s.fc.noteStateSort(name, sortStr)
	s.fc.recordWrite(name)
	if len(term) > 60 {
		s.fc.ctr++
		term = s.fc.define(fmt.Sprintf("%s@v%d", name, s.fc.ctr), sortStr, term)
	}
	s.m[name] = term
}

func (s *State) assume(fact string) {
	if fact == "true" {
		return
	}
	s.guard = s.fc.nameGuard(and(s.guard, fact))
}
