package main

import (
	"strings"
)

// Candidate search for replay. An obligation whose guard contains quantified facts usually ends as "unknown" rather
// than "sat", so the solver gives no model. To still find an input to try on the real code, the query is asked again
// with every quantifier replaced by finitely many instances (the bound variable set to 0..n-1). The result is only a
// candidate: whether it is a counterexample is decided by running the real function on it, never by this query.

// matchParen returns the index just after the s-expression that starts at s[i] == '('.
func matchParen(s string, i int) int {
	depth := 0
	inBar := false
	for j := i; j < len(s); j++ {
		c := s[j]
		if inBar {
			if c == '|' {
				inBar = false
			}
			continue
		}
		switch c {
		case '|':
			inBar = true
		case '(':
			depth++
		case ')':
			depth--
			if depth == 0 {
				return j + 1
			}
		}
	}
	return -1
}

// splitTop splits the inside of an s-expression list into its top-level items.
func splitTop(s string) []string {
	var out []string
	i := 0
	for i < len(s) {
		switch {
		case s[i] == ' ' || s[i] == '\n' || s[i] == '\t':
			i++
		case s[i] == '(':
			j := matchParen(s, i)
			if j < 0 {
				return append(out, s[i:])
			}
			out = append(out, s[i:j])
			i = j
		case s[i] == '|':
			j := strings.IndexByte(s[i+1:], '|')
			if j < 0 {
				return append(out, s[i:])
			}
			out = append(out, s[i:i+j+2])
			i += j + 2
		default:
			j := i
			for j < len(s) && s[j] != ' ' && s[j] != '\n' && s[j] != '\t' && s[j] != '(' && s[j] != ')' {
				j++
			}
			out = append(out, s[i:j])
			i = j
		}
	}
	return out
}

// substSym replaces the symbol v (as a whole token) by t.
func substSym(s, v, t string) string {
	var b strings.Builder
	i := 0
	isTok := func(c byte) bool {
		return !(c == ' ' || c == '\n' || c == '\t' || c == '(' || c == ')')
	}
	for i < len(s) {
		if s[i] == '|' {
			j := strings.IndexByte(s[i+1:], '|')
			if j < 0 {
				b.WriteString(s[i:])
				break
			}
			tok := s[i : i+j+2]
			if tok == v {
				b.WriteString(t)
			} else {
				b.WriteString(tok)
			}
			i += j + 2
			continue
		}
		if isTok(s[i]) {
			j := i
			for j < len(s) && isTok(s[j]) && s[j] != '|' {
				j++
			}
			tok := s[i:j]
			if tok == v {
				b.WriteString(t)
			} else {
				b.WriteString(tok)
			}
			i = j
			continue
		}
		b.WriteByte(s[i])
		i++
	}
	return b.String()
}

// relaxQuantifiers instantiates every forall/exists over bit-vector variables at 0..n-1 (n shrinks for several
// variables); quantifiers over other sorts become true.
func relaxQuantifiers(s string, n int) string { return relaxQuantifiersOpt(s, n, false) }

// relaxQuantifiersOpt: with forallOnly, existential quantifiers are left to the solver.
func relaxQuantifiersOpt(s string, n int, forallOnly bool) string {
	limit := len(s)
	for rounds := 0; rounds < 10000; rounds++ {
		i := strings.LastIndex(s[:limit], "(forall ")
		kind := "and"
		if k := strings.LastIndex(s[:limit], "(exists "); k > i {
			if forallOnly {
				limit = k
				continue
			}
			i, kind = k, "or"
		}
		if i < 0 {
			return s
		}
		end := matchParen(s, i)
		if end < 0 {
			return s
		}
		items := splitTop(s[i+1 : end-1]) // forall, ((v S)...), body
		repl := "true"
		if len(items) == 3 {
			binders := splitTop(items[1][1 : len(items[1])-1])
			body := items[2]
			if strings.HasPrefix(body, "(! ") {
				if bi := splitTop(body[1 : len(body)-1]); len(bi) >= 2 {
					body = bi[1]
				}
			}
			type bnd struct{ v, sort string }
			var bs []bnd
			ok := true
			for _, bd := range binders {
				parts := splitTop(bd[1 : len(bd)-1])
				if len(parts) != 2 || !strings.HasPrefix(parts[1], "(_ BitVec ") {
					ok = false
					break
				}
				bs = append(bs, bnd{parts[0], parts[1]})
			}
			per := n
			if len(bs) == 2 {
				per = 4
			} else if len(bs) > 2 {
				ok = false
			}
			if ok && len(bs) > 0 {
				insts := []string{body}
				for _, b := range bs {
					w := 64
					switch b.sort {
					case "(_ BitVec 8)":
						w = 8
					case "(_ BitVec 16)":
						w = 16
					case "(_ BitVec 32)":
						w = 32
					}
					var next []string
					for _, in := range insts {
						for k := 0; k < per; k++ {
							next = append(next, substSym(in, b.v, bvLit(uint64(k), w)))
						}
					}
					insts = next
				}
				repl = "(" + kind + " " + strings.Join(insts, " ") + ")"
			}
		}
		s = s[:i] + repl + s[end:]
		limit = i
		if len(s) > 64<<20 {
			return s
		}
	}
	return s
}

// simplifySum cancels syntactically equal summands of opposite sign in a bvadd/bvsub tree (64-bit), so that an index
// written as off + (p - off) is the plain term p, which E-matching can use as a trigger.
func simplifySum(t string) string {
	type term struct {
		t   string
		neg bool
	}
	var terms []term
	var flat func(t string, neg bool)
	flat = func(t string, neg bool) {
		if strings.HasPrefix(t, "(bvadd ") || strings.HasPrefix(t, "(bvsub ") {
			items := splitTop(t[1 : len(t)-1])
			if len(items) >= 3 {
				for k, it := range items[1:] {
					n := neg
					if items[0] == "bvsub" && k > 0 {
						n = !neg
					}
					flat(it, n)
				}
				return
			}
		}
		terms = append(terms, term{t, neg})
	}
	flat(t, false)
	changed := false
	for i := 0; i < len(terms); i++ {
		if terms[i].t == "" {
			continue
		}
		for j := i + 1; j < len(terms); j++ {
			if terms[j].t == terms[i].t && terms[j].neg != terms[i].neg {
				terms[i].t, terms[j].t = "", ""
				changed = true
				break
			}
		}
	}
	if !changed {
		return t
	}
	var pos, neg []string
	for _, x := range terms {
		if x.t == "" {
			continue
		}
		if x.neg {
			neg = append(neg, x.t)
		} else {
			pos = append(pos, x.t)
		}
	}
	var p string
	switch len(pos) {
	case 0:
		p = bvLit(0, 64)
	case 1:
		p = pos[0]
	default:
		p = app("bvadd", pos...)
	}
	if len(neg) == 0 {
		return p
	}
	return app("bvsub", append([]string{p}, neg...)...)
}
