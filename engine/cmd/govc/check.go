package main

import (
	"encoding/json"
	"flag"
	"fmt"
	"os"
	"path/filepath"
	"sort"
	"strconv"
	"strings"
	"time"
)

// KnownFindings is /verif/known_findings.json.
type KnownFindings struct {
	Known []struct {
		Property   string `json:"property"`
		Obligation string `json:"obligation"`
		What       string `json:"what"`
	} `json:"known"`
	Fixed []struct {
		Property string `json:"property"`
		Commit   string `json:"commit"`
		What     string `json:"what"`
	} `json:"fixed"`
}

// cmdCheck is the per-property check: verify, compare with known findings, write evidence, print the verdict lines.
func cmdCheck(args []string) int {
	fs := flag.NewFlagSet("check", flag.ExitOnError)
	repo := fs.String("repo", "/repo", "repository root")
	prop := fs.String("prop", "", "property id")
	tier := fs.String("tier", "quick", "quick|thorough")
	verifDir := fs.String("verif", "/verif", "verification directory")
	level := fs.String("level", "proof", "level written to the evidence file")
	fs.Parse(args)
	if *prop == "" {
		fmt.Fprintln(os.Stderr, "check: -prop required")
		return 2
	}
	seed := 0
	if s := os.Getenv("VERIF_SEED"); s != "" {
		seed, _ = strconv.Atoi(s)
	}
	timeout := 20
	if *tier == "thorough" {
		timeout = 90
	}
	replayDir := filepath.Join(*verifDir, "replays", *prop)
	_ = os.RemoveAll(replayDir)
	t0 := time.Now()
	o := &verifyOpts{repo: *repo, prop: *prop, timeout: timeout, jobs: 16, quiet: true, dump: ""}
	res := runVerify(o)

	var kf KnownFindings
	if data, err := os.ReadFile(filepath.Join(*verifDir, "known_findings.json")); err == nil {
		_ = json.Unmarshal(data, &kf)
	}
	known := map[string]string{}
	for _, k := range kf.Known {
		if k.Property == *prop {
			known[k.Obligation] = k.What
		}
	}

	type viol struct {
		name, replay string
		noInput      bool
	}
	var viols []viol
	var knownHit []string
	writeReplay := func(name string, content map[string]interface{}) string {
		_ = os.MkdirAll(replayDir, 0o755)
		fn := strings.NewReplacer("/", "_", " ", "_", "*", "", "(", "", ")", "", "$", "_", "#", "-", ":", "-", "!", "-", "@", "-").Replace(name)
		p := filepath.Join(replayDir, fn+".json")
		data, _ := json.MarshalIndent(content, "", " ")
		_ = os.WriteFile(p, data, 0o644)
		return p
	}
	if res.LoadErr != "" {
		p := writeReplay("load-error", map[string]interface{}{"property": *prop, "obligation": "load", "error": res.LoadErr})
		viols = append(viols, viol{"load", p, true})
	}
	nFuncs := 0
	var fuc []string
	trusted := map[string]bool{}
	unsupported := map[string]bool{}
	var samples []interface{}
	byKind := map[string]int{}
	byBackend := map[string]int{}
	covers, coversOK := 0, 0
	total, discharged := 0, 0
	var oblList []map[string]interface{}
	for _, rep := range res.Reports {
		nFuncs++
		fuc = append(fuc, rep.Fn)
		for _, t := range rep.Trusted {
			trusted[t] = true
		}
		for _, u := range rep.Unsupported {
			unsupported[rep.Fn+": "+u] = true
		}
		if rep.Error != "" {
			p := writeReplay(rep.Fn+"-error", map[string]interface{}{"property": *prop, "obligation": rep.Fn + "#translate", "error": rep.Error})
			viols = append(viols, viol{rep.Fn + "#translate", p, true})
		}
		for i, ob := range rep.Obls {
			if ob.Kind == "cover" {
				covers++
				if ob.Status == "covered" {
					coversOK++
				} else {
					p := writeReplay(ob.Name, map[string]interface{}{"property": *prop, "obligation": ob.Name, "kind": "vacuity", "status": ob.Status, "pos": ob.Pos,
						"explanation": "a precondition or a return became unreachable under the contracts: proofs of this function would be vacuous"})
					viols = append(viols, viol{ob.Name, p, true})
				}
				continue
			}
			total++
			byKind[ob.Kind]++
			oblList = append(oblList, map[string]interface{}{"name": ob.Name, "kind": ob.Kind, "status": ob.Status, "backend": ob.Backend, "ms": ob.Ms})
			if ob.Status == "discharged" {
				discharged++
				byBackend[ob.Backend]++
				if len(samples) < 4 && ob.Backend != "trivial" {
					o := rep.obls[i]
					samples = append(samples, map[string]interface{}{"obligation": ob.Name, "kind": ob.Kind, "at": ob.Pos, "what": ob.Descr,
						"goal_smt": truncate(o.Goal, 600), "backend": ob.Backend, "ms": ob.Ms})
				}
				continue
			}
			if what, ok := known[ob.Name]; ok {
				knownHit = append(knownHit, fmt.Sprintf("KNOWN-FINDING: property=%s %s %s", *prop, ob.Name, what))
				continue
			}
			content := map[string]interface{}{"property": *prop, "obligation": ob.Name, "kind": ob.Kind, "status": ob.Status, "pos": ob.Pos,
				"what": ob.Descr, "backend": ob.Backend, "solver_output": ob.Output, "model": truncate(ob.Model, 20000)}
			rp := tryReplay(res.eng, rep, rep.obls[i], ob, *verifDir, content)
			p := writeReplay(ob.Name, content)
			viols = append(viols, viol{ob.Name, p, !rp})
		}
	}
	sort.Strings(fuc)
	wall := time.Since(t0).Seconds()

	// evidence
	ev := map[string]interface{}{
		"property_id": *prop, "tier": *tier, "seed": seed, "level": *level, "wall_s": wall,
		"violations": len(viols),
		"coverage": map[string]interface{}{
			"obligations":              total,
			"discharged":               discharged,
			"checker_cmd":              fmt.Sprintf("bin/govc check -prop %s -tier %s  (SSA of /repo working tree, tag verif; per-obligation SMT queries; portfolio z3-new 5.1.0 -> z3 4.8.12 | cvc5 1.0.3)", *prop, *tier),
			"trusted_base":             append([]string{"golang.org/x/tools go/ssa v0.29.0 (SSA construction)", "govc SSA->SMT translation (this repository, /verif/engine)", "z3 5.1.0 / z3 4.8.12 / cvc5 1.0.3 (unsat answers)"}, sortedKeys(trusted)...),
			"functions_under_contract": fuc,
			"obligations_by_kind":      byKind,
			"discharged_by_backend":    byBackend,
			"vacuity_guards":           map[string]int{"cover_queries": covers, "covered": coversOK},
			"solver_time_ms":           res.SolverMs,
			"load_ms":                  res.LoadMs,
			"unsupported_constructs_overapproximated": sortedKeys(unsupported),
			"known_findings_hit":       len(knownHit),
			"samples":                  samples,
			"obligation_list":          oblList,
			"integers":                 "fixed-width bit-vectors (no mathematical-integer idealisation)",
		},
		"assumptions": append([]string{
			"go/packages+go/ssa build a faithful SSA of the working tree; govc's SSA->SMT encoding is correct (exercised by the must-fail corpus, not proved)",
			"solver unsat answers are correct",
			"linux/amd64: int is 64 bit, slice capacity <= 2^47",
			"goroutine interference on heap state is not modelled except through declared channel/lock invariants",
		}, sortedKeys(trusted)...),
	}
	if total == 0 {
		p := writeReplay("no-obligations", map[string]interface{}{"property": *prop, "obligation": "none", "error": "no obligations were generated (no function under contract lists this property)"})
		viols = append(viols, viol{"no-obligations", p, true})
	}
	_ = os.MkdirAll(filepath.Join(*verifDir, "evidence"), 0o755)
	data, _ := json.MarshalIndent(ev, "", " ")
	_ = os.WriteFile(filepath.Join(*verifDir, "evidence", *prop+".json"), data, 0o644)

	for _, k := range knownHit {
		fmt.Println(k)
	}
	if len(viols) == 0 {
		fmt.Printf("OK property=%s functions=%d obligations=%d discharged=%d known_findings=%d wall_s=%.1f\n", *prop, nFuncs, total, discharged+0, len(knownHit), wall)
		return 0
	}
	for _, v := range viols {
		suffix := ""
		if v.noInput {
			suffix = " no-failing-input-found"
		}
		fmt.Printf("VIOLATION property=%s replay=%s obligation=%s%s\n", *prop, v.replay, v.name, suffix)
	}
	return 1
}


