#!/bin/bash
# usage: run_seeds.sh [seed-id-prefix]   -- runs the registered check(s) for each stored seed and prints detection status
cd /verif
claimed=$(python3 -c "import json;print(' '.join(c['property_id'] for c in json.load(open('MANIFEST.json'))['checks']))")
for d in seeded/${1:-}*; do [ -d "$d" ] || continue
  sid=$(basename $d); prop=${sid%%-*}
  props="$prop ${EXTRA_PROPS:-}"
  res=$(tools/try_seed.sh /verif/$d/patch.diff $props 2>&1 | grep -E "^(VIOLATION|OK|patch|repo)" | head -3 | cut -c1-200 | tr '\n' '|')
  case "$res" in *VIOLATION*) st=DETECTED;; *OK*) st=missed;; *) st="?";; esac
  echo "$sid $st :: $res"
done
