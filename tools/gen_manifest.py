#!/usr/bin/env python3
"""Generates /verif/MANIFEST.json from the table below (one entry per claimed property)."""
import json, subprocess

TECH = "contract-based deductive verification (per-function weakest-precondition VCs generated from go/ssa of /repo, 64/32-bit bit-vector integers, discharged by z3/cvc5)"
COMMON_NOTE = ("Trusted: go/packages+go/ssa (x/tools v0.29.0) SSA construction, govc's SSA->SMT encoding (/verif/engine; exercised by the seeded-mutation corpus, not proved), "
               "unsat answers of z3 5.1.0 / z3 4.8.12 / cvc5 1.0.3, linux/amd64 sizes, and the trusted library contracts listed in the evidence file (trusted_base). ")

CLAIMS = {
 "C17": ("proof", "Postconditions of toFileMode / fromFileMode / isRegular / toChmodPerm proved for all 2^32 inputs (loop-free, full bit-vector domain: complete), and both round-trip statements proved as lemmas from those contracts alone.",
         "Not decided here: agreement with the host file system for special file kinds; the SETSTAT application order and the long-name formatter are not yet under contract.", "10 C17"),
 "C08": ("proof", "Every decoding entry point of both codecs (framing, all request/response body decoders, attribute / name-list / extension-pair decoders) is under contract: all index, slice, nil, type-assertion and makeslice obligations are discharged for arbitrary input bytes, every make/append growth is proved below a per-function bound linear in the input length (alloc-bound), frame lengths above the limit / zero are refused before the body read (asserted at the second ReadFull).",
         "io.ReadFull and binary.BigEndian contracts are assumed; extension constructors registered by foreign code are assumed side-effect free; the allocator's page-size post is assumed here (proved under C18 when claimed).", "10 C08"),
 "C20": ("proof", "No-panic and bounded-allocation obligations of every reply-decoding site of the client (all single-request operations, readChunkAt/writeChunkAt and the four background worker closures) discharged for every reply type and every reply byte string, under the channel invariant 'err == nil ==> len(data) >= 4' of result channels, which is itself proved at the send in clientConn.recv / sendPacket.",
         "Goroutine interference is not modelled; context.Context.Err() != nil after Done() and the io contracts are assumed. 'Client still usable afterwards' is covered only as far as each function returns an error value.", "10 C20"),
 "C09": ("proof", "Ghost counter fsWrites over an assumed (trusted) classification of the os / *os.File API: proved that one iteration of the worker loop of a read-only Server performs no mutating call (loop invariant readOnly ==> fsWrites unchanged), that the gate lets exactly the harmless requests through (OPEN harmless iff no WRITE/APPEND/CREAT/TRUNC flag for all 2^32 flag words; EXTENDED harmless iff unknown name or statvfs, through the real method sets for the notReadOnly marker), and that handlePacket / every respond method performs no write for a harmless request.",
         "The mutating/non-mutating classification of os.* and file methods is assumed. The denial status code (permission-denied) is part of the error-mapping obligations (C10) and not re-proved here. Found and fixed: OPEN READ|CREAT / READ|TRUNC and hardlink@openssh.com on a read-only server.", "10 C09"),
 "C14": ("proof", "In the dispatcher goroutine (packetManager.workerChan$1) proved with ghost flags over the real control flow: a CLOSE is registered and handed to the command worker only after working.Wait() returned in the same iteration; READ/WRITE are registered (working.Add) before they are handed to the read/write pool; nothing but READ/WRITE goes to the pool and no READ/WRITE to the command worker.",
         "sync.WaitGroup semantics (Wait returns only at counter zero) and channel FIFO are assumed; that handlers call readyPacket only after the backing ReadAt/WriteAt returned is program order inside handlePacket / file* (checked by the C02 exactly-once obligations, not restated here).", "10 C14"),
 "C19": ("proof", "recvVersion: a nil error implies the first packet was a VERSION packet with version == 3 (all 2^32 versions, any type byte), decoding is total; SetSFTPExtensions: on error the configured list header and every element are unchanged (arbitrary-index formulation), on success the length matches, and the list under construction never aliases the live list; lookup returns an entry with the requested name; the extended-request switch leaves SpecificPacket nil exactly for unknown names (which the read-only gate treats as harmless and the handlers answer OP_UNSUPPORTED), and decodes known ones into a packet with the same id.",
         "Not proved: element-wise order of the configured list on success (quantified copy-on-growth of append is not decided by the installed solvers); 'advertised implies served' is covered through the switch/response contracts of C02/C07.", "10 C19"),
 "C07": ("proof", "Both Serve loops and everything they reach (frame reader, makePacket, all request decoders, worker loops, handlePacket, every respond method, RequestServer.packetWorker, Request.call/open/opendir and the file* wrappers, handle tables, end-of-Serve sweeps) are under contract: every index/slice/nil/type-assertion/makeslice obligation is discharged for arbitrary packet bytes and arbitrary handler results allowed by the handler interfaces; at the hand-over to the workers it is proved that the packet decoded without error or names an unknown extension (a malformed packet is never dispatched), that every such packet is forwarded exactly once, that Serve returns only after the workers were joined and the sweep over the handle table completed, and that the packet manager is stopped only after working.Wait().",
         "Liveness (no wedge, no goroutine left behind) is not decided by this technique; goroutine interference is not modelled; handler objects honour their interface contracts (ListAt count within the buffer, non-nil results on nil error); MaxFilelist in [1, 10^6]; slots of the controller queues below len are non-nil (assumed, see evidence). Found and fixed: Server.Serve dispatched malformed / unknown-type packets.", "10 C07"),
 "C02": ("proof", "Ghost counters: one iteration of either worker loop takes one request and calls readyPacket exactly once (ready - taken constant), with the request's order id, a non-nil response whose id() equals the request's id() (also through the extended-packet wrapper, whose inner id is proved equal to the outer one by the decoder contract) and a response type from the legal set of the handler that produced it; the Serve loops forward every decodable packet exactly once; maybeSendPackets sends only when the order id of the head of the outgoing queue equals that of the head of the incoming queue, and sends that head.",
         "sort.Slice keeps the queues sorted and channels are FIFO (assumed); order ids do not wrap; starvation is not decided. The sortedness invariant of the queues across controller iterations is not proved (quantified), only the head-match discipline.", "10 C02"),
}

def main():
    head = subprocess.run(['git', '-C', '/repo', 'log', '--format=%h %s'], capture_output=True, text=True).stdout.strip().split('\n')
    hooks = [l.split(' ')[0] for l in head if l.split(' ', 1)[1].startswith('verif:')]
    props = [json.loads(l) for l in open('/verif/properties.jsonl')]
    checks, na = [], []
    for p in props:
        pid = p['id']
        if pid in CLAIMS:
            cat, text, note, ref = CLAIMS[pid]
            checks.append({
                "property_id": pid, "quick_cmd": "./check %s quick" % pid, "thorough_cmd": "./check %s thorough" % pid,
                "evidence_file": "/verif/evidence/%s.json" % pid, "engine": "govc", "technique": TECH,
                "replay_cmd_template": "cat {path}",
                "level_claimed": {"category": cat, "text": text, "design_ref": "DESIGN.md section " + ref},
                "level_note": COMMON_NOTE + note})
        else:
            na.append({"property_id": pid, "reason": "not claimed yet: the contracts that carry this property are still being built (see DESIGN.md section 10 for the planned obligations); no other technique is substituted"})
    m = {
     "version": 1,
     "setup_cmd": "cd /verif/engine && GOFLAGS=-mod=mod GOPROXY=off go build -o ../bin/govc ./cmd/govc",
     "hooks": {"guard": "verif",
               "enable": "-tags verif: comment-only contract files /repo/verif_contracts.go and /repo/internal/encoding/ssh/filexfer/verif_contracts.go (govc loads the packages with this tag; no executable line is added)",
               "baseline_off_cmd": "cd /repo && go test -vet=off -count=1 -timeout 25m ./...",
               "source_commits": hooks, "add_only": True},
     "engines": [{"name": "govc", "path": "/verif/engine", "serves_properties": sorted(CLAIMS),
                  "kind_free_text": "contract-based deductive verifier for Go written for this task: go/ssa of /repo's working tree -> one SMT query per obligation (bit-vector integers, Burstall-Bornat heap, real go/types method sets, loop invariants, ghost state), portfolio z3 5.1.0 / z3 4.8.12 / cvc5 1.0.3"}],
     "checks": checks, "not_applicable": na,
     "notes": "Contracts live in /repo behind the build tag verif; /verif/known_findings.json lists defects found by the checks and repaired by fix: commits."}
    json.dump(m, open('/verif/MANIFEST.json', 'w'), indent=1)
    print("claimed:", sorted(CLAIMS), "not claimed:", len(na))

main()
