#!/usr/bin/env python3
"""usage: selftest.py <property-id>
Thorough tier only: must-fail self-test of the check. Every stored seeded change of the property is applied to a
scratch copy of /repo's working tree (outside /repo and /verif, removed afterwards) and the same check is run on the
copy; a seeded change the check does not notice is recorded, it is NOT a violation of the property on /repo.
The result is added to the evidence file written by the main run (coverage.must_fail_selftest)."""
import glob, json, os, shutil, subprocess, sys, tempfile
pid = sys.argv[1]
seeds = sorted(glob.glob('/verif/seeded/%s-*' % pid))
res = []
for sd in seeds:
    sid = os.path.basename(sd)
    scratch = tempfile.mkdtemp(prefix='vst-%s-' % sid, dir='/tmp')
    try:
        repo = os.path.join(scratch, 'repo')
        vdir = os.path.join(scratch, 'verif')
        subprocess.run(['rsync', '-a', '--exclude', '.git', '/repo/', repo + '/'], check=True)
        os.makedirs(os.path.join(vdir, 'evidence'))
        shutil.copy('/verif/known_findings.json', vdir)
        p = subprocess.run(['patch', '-p1', '-s', '-d', repo, '-i', os.path.join(sd, 'patch.diff')], capture_output=True, text=True)
        if p.returncode != 0:
            res.append({'seed': sid, 'result': 'patch-does-not-apply'})
            continue
        r = subprocess.run(['/verif/bin/govc', 'check', '-prop', pid, '-tier', 'quick', '-repo', repo, '-verif', vdir],
                           capture_output=True, text=True)
        first = next((l for l in r.stdout.splitlines() if l.startswith('VIOLATION')), '')
        obl = ''
        if 'obligation=' in first:
            obl = first.split('obligation=')[1].split(' ')[0]
        res.append({'seed': sid, 'result': 'detected' if r.returncode != 0 else 'missed', 'first_obligation': obl})
    finally:
        shutil.rmtree(scratch, ignore_errors=True)
ev = '/verif/evidence/%s.json' % pid
e = json.load(open(ev))
e['coverage']['must_fail_selftest'] = {
    'what': 'each stored seeded change of this property applied to a scratch copy of the working tree; the check must alarm on the copy',
    'seeds': len(res), 'detected': sum(1 for x in res if x['result'] == 'detected'), 'results': res}
json.dump(e, open(ev, 'w'), indent=1)
print('SELFTEST property=%s seeds=%d detected=%d' % (pid, len(res), e['coverage']['must_fail_selftest']['detected']))
