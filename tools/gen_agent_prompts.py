#!/usr/bin/env python3
"""usage: gen_agent_prompts.py <round-tag, e.g. 4> [ids...]
Writes /tmp/agent<tag>-prompt-<id>.txt for each property: the property's text (verbatim JSON), the task, and one-sentence
summaries of the seeded changes already stored for it (so that new ones differ). Nothing else from /verif goes in."""
import json, sys, glob, os
tag = sys.argv[1]
want = sys.argv[2:]
template = open('/tmp/agent3-prompt-C15.txt').read() if os.path.exists('/tmp/agent3-prompt-C15.txt') else None
props = [json.loads(l) for l in open('/verif/properties.jsonl')]
HEAD = """You are testing how robust a Go library's correctness properties are. The library is github.com/pkg/sftp (SFTP v3 client, os-backed server, handler-based request server, packet codec). You have your own scratch git worktree of it at {wt} (work ONLY inside that directory; do not touch /repo or /verif or anything else; do not read /verif).

Environment: no network. Before every go command run: export GOFLAGS=-mod=mod GOPROXY=off   (do NOT set GOTOOLCHAIN or GOSUMDB). Build: `go build ./...`. Existing test suite: `go test -vet=off -count=1 ./...` (takes ~10 s; it must keep passing). Some existing tests share the fixed unix socket path /tmp/rstest.sock with other sessions on this machine: if a suite run fails only with errors that mention that socket (address already in use / no such file or directory), that is a collision, not your change -- rerun it.

The property (JSON, from the project's list of semantic properties):
{prop}

Task: produce THREE different, independent, realistic changes ("mutations") to the library's non-test Go source, each of which
  (a) still compiles,
  (b) still passes the complete existing test suite unchanged (`go test -vet=off -count=1 ./...`),
  (c) BREAKS the property above, and
  (d) needs something specific to manifest -- e.g. a particular input value or boundary (a length within one byte of a multiple of the packet size, an unusual flag combination, a truncated/over-long field), a particular interleaving or completion order, a fault at a particular point, a multi-step sequence of operations, or two cooperating sites that each look fine alone. Do NOT produce changes that ordinary use would expose at once (e.g. breaking every read). Prefer small, plausible edits of the kind a real regression or careless refactor would introduce (off-by-one, wrong variable, dropped check, swapped arguments, weakened guard, early return, wrong mask, missing case), spread over different functions/mechanisms listed in the property's anchors.

For EACH mutation k = 1,2,3 deliver, under {wt}/out/m<k>/ :
  - patch.diff : `git diff` of the change against the worktree HEAD (only non-test library files; apply-able with `git apply`),
  - a demonstration: either demo_test.go (an in-package `package sftp` -- or the relevant sub-package -- _test.go file, to be dropped next to the package sources, with ONE test function named TestSeeded_<something>) or a small standalone program, that FAILS with the change applied and PASSES on the unchanged tree. The demonstration must be deterministic (or fail with very high probability) and finish within 60 s. It may use in-memory pipes (see the existing *_test.go files for how tests build a client/server pair in-process, e.g. clientRequestServerPair, testClientGoSvr, NewClientPipe with io.Pipe, or feeding raw packet bytes).
  - meta.json : {{"property": "<id>", "summary": "<one sentence: what was changed>", "needs": "<what is needed for it to manifest>", "files": ["..."], "demo_cmd": "<exact command to run the demonstration from the worktree root>"}}

Procedure you must follow for each mutation: start from a clean tree (`git checkout -- . && git clean -fdq -e out` but keep ./out), apply the change, run the build and the full existing suite (must pass), add the demo and run it (must fail), save patch.diff (excluding the demo file), then revert the change, run the demo again on the clean tree (must pass). Only keep mutations for which you observed all of that yourself. Note: the worktree intentionally shows several deleted tracked files named verif_*.go (behind a build tag); leave them deleted, never restore or read them from git history, and revert your own edits file by file (git checkout -- <file>) rather than with a blanket checkout. Also create out/go.mod containing the single line 'module seedout' so that ./... does not descend into out/. Make each demo_cmd self-contained (only files under out/m<k>/) and make it exit non-zero exactly when the demo fails (do not end it with an unconditional cleanup command). When a demo builds an in-process client/server pair, close the server side before the client. At the end leave the worktree otherwise clean except for ./out, and reply with a short table: mutation, file/function changed, what it needs to manifest, and the observed results (suite with change: pass; demo with change: FAIL; demo without change: PASS). Keep your own messages short.


These mutations are already known; yours must differ from them in mechanism AND location (do not vary them). Look for places the known ones have NOT touched: other functions named in the anchors, other code paths of the same mechanism, helper functions they rely on, option handling, boundary values, error paths, the less used of two parallel implementations (os-backed server vs request server, wire codec vs internal filexfer codec, client vs server side):
{known}
"""
for p in props:
    pid = p['id']
    if want and pid not in want:
        continue
    q = {k: p[k] for k in ('id', 'title', 'statement', 'quantifier', 'why_tests_cant', 'anchors') if k in p}
    known = []
    for d in sorted(glob.glob('/verif/seeded/%s-*' % pid), key=lambda s: int(s.rsplit('-', 1)[1])):
        m = json.load(open(d + '/meta.json'))
        known.append('- ' + m.get('summary', '').strip())
    wt = '/tmp/seed%s-%s' % (tag, pid)
    open('/tmp/agent%s-prompt-%s.txt' % (tag, pid), 'w').write(HEAD.format(wt=wt, prop=json.dumps(q, indent=1), known='\n'.join(known)))
    print(pid, len(known))
