#!/bin/bash
# Runs every claimed check on the unchanged tree, then every stored seed against its property's check.
cd /verif
claimed=$(python3 -c "import json;print(' '.join(c['property_id'] for c in json.load(open('MANIFEST.json'))['checks']))")
echo "== unchanged tree"
for p in $claimed; do ./check $p quick 2>&1 | grep -E "^(OK|VIOLATION|KNOWN)" | cut -c1-160; done
echo "== seeds"
tools/run_seeds.sh | cut -c1-170
