#!/bin/bash
# usage: ingest_benign.sh <worktree-prefix e.g. /tmp/ben1-> <property> <log>
# Stores behaviour-preserving changes made by an independent agent under /verif/benign/<id>-b<k>/, checks in a fresh
# scratch worktree that the suite still passes with each, then runs the property's registered quick check on /repo with
# the change applied (and reverted afterwards): a VIOLATION here is a false alarm.
pre="$1"; id="$2"; log="${3:-/dev/null}"
cd /verif
for k in 1 2 3; do
  src=${pre}${id}/out/b$k
  [ -f $src/patch.diff ] || { echo "$id-b$k: no patch"; continue; }
  d=benign/$id-b$k; mkdir -p $d; cp $src/patch.diff $src/meta.json $d/ 2>/dev/null
  wt=/tmp/benchk-$id-$k
  git -C /repo worktree add -q --detach $wt HEAD
  ok=no
  if (cd $wt && git apply $OLDPWD/$d/patch.diff 2>/dev/null && export GOFLAGS=-mod=mod GOPROXY=off && go build ./... >/dev/null 2>&1 && (go test -vet=off -count=1 ./... >/dev/null 2>&1 || go test -vet=off -count=1 ./... >/dev/null 2>&1)); then ok=yes; fi
  git -C /repo worktree remove --force $wt; rm -rf $wt; git -C /repo worktree prune
  if [ $ok != yes ]; then echo "$id-b$k NOT-CONFIRMED (does not apply, build or pass the suite)" | tee -a $log; continue; fi
  res=$(tools/try_seed.sh /verif/$d/patch.diff $id 2>&1 | grep -E "^(VIOLATION|OK|patch|repo)" | head -2 | cut -c1-230 | tr '\n' '|')
  case "$res" in *VIOLATION*) st=ALARM;; *OK*) st=quiet;; *) st="?";; esac
  echo "$id-b$k $st :: $res" | tee -a $log
done
git -C /repo worktree remove --force ${pre}${id} 2>/dev/null; rm -rf ${pre}${id}; git -C /repo worktree prune
