#!/bin/sh
# usage: try_seed.sh <patch.diff> <prop> [<prop>...]  -- applies the patch to /repo, runs the checks, reverts
patch="$1"; shift
cd /repo || exit 2
if ! git diff --quiet; then echo "repo dirty"; exit 2; fi
git apply "$patch" || { echo "patch does not apply"; exit 2; }
for p in "$@"; do
  out=$(/verif/check "$p" quick 2>&1)
  echo "$out" | grep -E "^(VIOLATION|OK|KNOWN)" | cut -c1-260 | head -5
done
git checkout -- . 
