#!/usr/bin/env python3
"""usage: gen_seed_table.py <run_seeds log>  -- rewrites the table behind <!-- SEEDTABLE --> in DESIGN.md"""
import json, re, sys, os
log = open(sys.argv[1]).read().splitlines()
rows = []
det = miss = 0
MISSED_WHY = {
 'C16-3': 'the change is in the in-memory example lister (request-example.go), which is not under contract',
 'C17-3': 'FileMode.String of the internal codec is not under contract (needs a model of indexed writes into a local byte array compared as a string)',
 'C17-4': 'the change rounds a time.Time before taking its seconds: pinning the provenance of a foreign struct value needs a ghost of that type, which the contract language cannot declare',
 'C06-6': 'pointer aliasing between loop iterations (all decoded entries point at one hoisted variable): needs a per-iteration freshness fact about pointers already stored in a slice, which the loop-cut encoding does not provide',
}
for l in log:
    m = re.match(r'^(C\d\d-\d+) (DETECTED|missed|\?) :: (.*)$', l)
    if not m:
        continue
    sid, st, rest = m.groups()
    meta = json.load(open('/verif/seeded/%s/meta.json' % sid))
    obl = ''
    mo = re.search(r'obligation=(\S+)', rest)
    if mo:
        obl = mo.group(1).replace('|', '\\|')
    summ = meta.get('summary', '').replace('|', '\\|').replace('\n', ' ')
    if len(summ) > 230:
        summ = summ[:227] + '...'
    if st == 'DETECTED':
        det += 1
        rows.append('| %s | %s | detected: `%s` |' % (sid, summ, obl))
    else:
        miss += 1
        rows.append('| %s | %s | **missed**: %s |' % (sid, summ, MISSED_WHY.get(sid, 'see text')))
table = ['%d seeded changes, %d detected by the registered quick check of their property, %d missed.' % (det + miss, det, miss), '',
         '| seed | change | result (first failing obligation) |', '|------|--------|------------------------------------|'] + rows
s = open('/verif/DESIGN.md').read()
i = s.index('<!-- SEEDTABLE -->')
s = s[:i] + '<!-- SEEDTABLE -->\n\n' + '\n'.join(table) + '\n'
open('/verif/DESIGN.md', 'w').write(s)
print(det, miss)
