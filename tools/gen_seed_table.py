#!/usr/bin/env python3
"""usage: gen_seed_table.py <run_seeds log>  -- rewrites the table behind <!-- SEEDTABLE --> in DESIGN.md"""
import json, re, sys, os
log = open(sys.argv[1]).read().splitlines()
rows = []
det = miss = 0
MISSED_WHY = {
 'C16-3': 'the change is in the directory model of the in-memory example handler (symlink resolution in root.readdir), which is an example file system, not the listing protocol',
 'C16-7': 'the change is in the directory model of the in-memory example handler (re-keying in root.rename), which is an example file system, not the listing protocol',
}
def key(l):
    m = re.match(r'^(C\d\d)-(\d+) ', l)
    return (m.group(1), int(m.group(2))) if m else ('Z', 0)
log = sorted([l for l in log if re.match(r'^C\d\d-\d+ ', l)], key=key)
replayed = 0
for l in log:
    m = re.match(r'^(C\d\d-\d+) (DETECTED|missed|\?) :: (.*)$', l)
    if not m:
        continue
    sid, st, rest = m.groups()
    meta = json.load(open('/verif/seeded/%s/meta.json' % sid))
    obl = ''
    mo = re.search(r'obligation=(\S+)', rest)
    if mo:
        obl = mo.group(1).replace('|', '\\|')
    summ = meta.get('summary', '').replace('|', '\\|').replace('\n', ' ')
    if len(summ) > 230:
        summ = summ[:227] + '...'
    rnd = (int(sid.split('-')[1]) - 1) // 3 + 1
    if st == 'DETECTED':
        det += 1
        how = ''
        if 'no-failing-input-found' not in rest.split('|')[0]:
            replayed += 1
            how = ' (input replayed on the real code)'
        rows.append('| %s | %d | %s | detected: `%s`%s |' % (sid, rnd, summ, obl, how))
    else:
        miss += 1
        rows.append('| %s | %d | %s | **missed**: %s |' % (sid, rnd, summ, MISSED_WHY.get(sid, 'see text')))
table = ['%d seeded changes, %d detected by the registered quick check of their property (%d of them with a failing input replayed on the real code), %d missed.' % (det + miss, det, replayed, miss), '',
         '| seed | round | change | result (first failing obligation) |', '|------|-------|--------|------------------------------------|'] + rows
s = open('/verif/DESIGN.md').read()
i = s.index('<!-- SEEDTABLE -->')
s = s[:i] + '<!-- SEEDTABLE -->\n\n' + '\n'.join(table) + '\n'
open('/verif/DESIGN.md', 'w').write(s)
print(det, miss)
