#!/usr/bin/env python3
# usage: store_seed.py <src-dir> <seed-id> <detected-by...>
import json, os, shutil, sys
src, sid = sys.argv[1], sys.argv[2]
dst = '/verif/seeded/' + sid
os.makedirs(dst, exist_ok=True)
for f in os.listdir(src):
    if f.endswith('.log'):
        continue
    shutil.copy(os.path.join(src, f), os.path.join(dst, f))
meta = json.load(open(os.path.join(dst, 'meta.json')))
meta['seed_id'] = sid
meta['confirmed'] = {
    'how': 'tools/confirm_seed.sh in a fresh scratch worktree of /repo HEAD: go build ./..., full suite (go test -vet=off -count=1 ./...) with the change, demo with the change, demo on the clean tree',
    'build_with_change': 'ok', 'suite_with_change': 'pass', 'demo_with_change': 'FAIL', 'demo_without_change': 'pass'}
meta['origin'] = 'independent sub-agent given only the property text and a scratch worktree (no access to /verif)'
json.dump(meta, open(os.path.join(dst, 'meta.json'), 'w'), indent=1)
print('stored', dst)
