#!/bin/bash
# usage: new_seed_worktree.sh <dir>  -- scratch worktree of /repo HEAD for a seeding agent, without any verif_* file
set -e
d="$1"
git -C /repo worktree add -q --detach "$d" HEAD
cd "$d"
find . -name 'verif_*.go' -delete
mkdir -p out && echo "module seedout" > out/go.mod
git status --short | head
