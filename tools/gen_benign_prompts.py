#!/usr/bin/env python3
"""usage: gen_benign_prompts.py <tag> ids...  -- prompts for agents that produce behaviour-preserving changes (to measure
how often the checks alarm on code in which the property still holds)."""
import json, sys
tag = sys.argv[1]; want = sys.argv[2:]
props = [json.loads(l) for l in open('/verif/properties.jsonl')]
T = """You are helping to measure how robust a verification harness is against harmless edits. The library is github.com/pkg/sftp (SFTP v3 client, os-backed server, handler-based request server, packet codec). You have your own scratch git worktree of it at {wt} (work ONLY inside that directory; do not touch /repo or /verif or anything else; do not read /verif).

Environment: no network. Before every go command run: export GOFLAGS=-mod=mod GOPROXY=off   (do NOT set GOTOOLCHAIN or GOSUMDB). Build: `go build ./...`. Existing test suite: `go test -vet=off -count=1 ./...` (takes ~10 s; it must keep passing). Some existing tests share the fixed unix socket path /tmp/rstest.sock with other sessions on this machine: if a suite run fails only with errors that mention that socket, that is a collision, not your change -- rerun it.

The property (JSON, from the project's list of semantic properties):
{prop}

Task: produce THREE different, independent, BEHAVIOUR-PRESERVING changes ("refactorings") to the library's non-test Go source, in the files and functions the property's anchors name, each of which
  (a) still compiles and still passes the complete existing test suite unchanged,
  (b) does NOT change the observable behaviour of the library in any way -- the property above, and every other reasonable property, holds exactly as before -- and
  (c) is the kind of edit a maintainer makes in passing and a reviewer waves through: renaming a local variable or a parameter, reordering two independent statements, replacing an if/else chain by a switch (or back), inverting a condition and swapping its branches, extracting a few lines into a small unexported helper function (or inlining a trivial helper), hoisting or sinking a declaration, introducing a named constant for a literal, replacing `x = x + n` by `x += n`, adding or removing a debug(...) call, rewording an error message or a comment, changing `var x T` + assignment into `x := ...`, splitting a long expression with a temporary variable, replacing a defer by explicit calls on every return path ONLY if that is truly equivalent. Use a different kind of edit for each of the three, and touch a different function with each. Keep each change small (at most ~25 changed lines). Do not change exported API, wire format, error values, or the order of observable operations (I/O calls, channel operations, lock operations).

For EACH change k = 1,2,3 deliver, under {wt}/out/b<k>/ :
  - patch.diff : `git diff` of the change against the worktree HEAD (only non-test library files; apply-able with `git apply`),
  - meta.json : {{"property": "<id>", "kind": "<kind of refactoring>", "summary": "<one sentence: what was changed>", "why_equivalent": "<one or two sentences>", "files": ["..."]}}

Procedure for each change: start from a clean tree (revert your previous edit file by file with `git checkout -- <file>`), apply the change, run the build and the full existing suite (must pass), save patch.diff, revert. Note: the worktree intentionally shows several deleted tracked files named verif_*.go (behind a build tag); leave them deleted, never restore or read them. Also create out/go.mod containing the single line 'module seedout'. At the end leave the worktree clean except for ./out and reply with a short table: change, kind, file/function, suite result. Keep your own messages short.
"""
for p in props:
    if p['id'] not in want: continue
    q = {k: p[k] for k in ('id', 'title', 'statement', 'anchors') if k in p}
    wt = '/tmp/ben%s-%s' % (tag, p['id'])
    open('/tmp/agentB%s-prompt-%s.txt' % (tag, p['id']), 'w').write(T.format(wt=wt, prop=json.dumps(q, indent=1)))
    print(p['id'])
