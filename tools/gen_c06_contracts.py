#!/usr/bin/env python3
"""Generates the C06 (wire layout / round trip) contracts of package sftp from a layout table.

The table below is written from the SFTP v3 draft (draft-ietf-secsh-filexfer-02, sections 3-7) and the OpenSSH
PROTOCOL file (sections 3-4 / 4.x: posix-rename@openssh.com, statvfs@openssh.com, hardlink@openssh.com,
fsync@openssh.com, and the reversed SSH_FXP_SYMLINK arguments) -- NOT from the marshalling code: type bytes are
numeric literals, field order is the draft's.  Code that disagrees with the table fails its postcondition.

Outputs (both behind the build tag verif):
  /repo/verif_contracts_c06.go   comment-only contract file ("extend func" blocks add to existing contracts)
  /repo/verif_harness_c06.go     round-trip harness functions: q.UnmarshalBinary(p.MarshalBinary()[5:]) -- real Go code
                                 that calls the real encoder and decoder; verified modularly from the two contracts
"""
import sys

# (struct, type byte, fields, options)
# field kinds: u32 / u64 / str (Go expression on receiver p) ; cstr (string literal of an extended request name)
# 'marshal': name of the method that produces the bytes: 'MarshalBinary' (whole packet) or 'marshalPacket' (header,
#            followed by a separately produced payload) ; 'via': MarshalBinary is a one-line wrapper of marshalIDStringPacket
# 'unmarshal': True if the type has UnmarshalBinary decoding the same fields (request packets)
PACKETS = [
    # requests
    ("sshFxpClosePacket",    4,  [("u32", "ID"), ("str", "Handle")],   dict(marshal="MarshalBinary", unmarshal=True)),
    ("sshFxpReadPacket",     5,  [("u32", "ID"), ("str", "Handle"), ("u64", "Offset"), ("u32", "Len")], dict(marshal="MarshalBinary", unmarshal=True)),
    ("sshFxpWritePacket",    6,  [("u32", "ID"), ("str", "Handle"), ("u64", "Offset"), ("u32", "Length")], dict(marshal="marshalPacket", payload="p.Data", unmarshal="write")),
    ("sshFxpLstatPacket",    7,  [("u32", "ID"), ("str", "Path")],     dict(marshal="MarshalBinary", unmarshal=True)),
    ("sshFxpFstatPacket",    8,  [("u32", "ID"), ("str", "Handle")],   dict(marshal="MarshalBinary", unmarshal=True)),
    ("sshFxpSetstatPacket",  9,  [("u32", "ID"), ("str", "Path"), ("u32", "Flags")],   dict(marshal="marshalPacket", unmarshal="attrs")),
    ("sshFxpFsetstatPacket", 10, [("u32", "ID"), ("str", "Handle"), ("u32", "Flags")], dict(marshal="marshalPacket", unmarshal="attrs")),
    ("sshFxpOpendirPacket",  11, [("u32", "ID"), ("str", "Path")],     dict(marshal="MarshalBinary", unmarshal=True)),
    ("sshFxpReaddirPacket",  12, [("u32", "ID"), ("str", "Handle")],   dict(marshal="MarshalBinary", unmarshal=True)),
    ("sshFxpRemovePacket",   13, [("u32", "ID"), ("str", "Filename")], dict(marshal="MarshalBinary", unmarshal=True)),
    ("sshFxpMkdirPacket",    14, [("u32", "ID"), ("str", "Path"), ("u32", "Flags")], dict(marshal="MarshalBinary", unmarshal=True)),
    ("sshFxpRmdirPacket",    15, [("u32", "ID"), ("str", "Path")],     dict(marshal="MarshalBinary", unmarshal=True)),
    ("sshFxpRealpathPacket", 16, [("u32", "ID"), ("str", "Path")],     dict(marshal="MarshalBinary", unmarshal=True)),
    ("sshFxpStatPacket",     17, [("u32", "ID"), ("str", "Path")],     dict(marshal="MarshalBinary", unmarshal=True)),
    ("sshFxpRenamePacket",   18, [("u32", "ID"), ("str", "Oldpath"), ("str", "Newpath")], dict(marshal="MarshalBinary", unmarshal=True)),
    ("sshFxpReadlinkPacket", 19, [("u32", "ID"), ("str", "Path")],     dict(marshal="MarshalBinary", unmarshal=True)),
    # OpenSSH PROTOCOL 4.1: the two path arguments of SSH_FXP_SYMLINK are sent as (targetpath, linkpath)
    ("sshFxpSymlinkPacket",  20, [("u32", "ID"), ("str", "Targetpath"), ("str", "Linkpath")], dict(marshal="MarshalBinary", unmarshal=True)),
    ("sshFxpOpenPacket",     3,  [("u32", "ID"), ("str", "Path"), ("u32", "Pflags"), ("u32", "Flags")], dict(marshal="marshalPacket", unmarshal="attrs")),
    # OpenSSH extensions (requests of type SSH_FXP_EXTENDED = 200)
    ("sshFxpPosixRenamePacket", 200, [("u32", "ID"), ("cstr", "posix-rename@openssh.com"), ("str", "Oldpath"), ("str", "Newpath")], dict(marshal="MarshalBinary")),
    ("sshFxpStatvfsPacket",     200, [("u32", "ID"), ("cstr", "statvfs@openssh.com"), ("str", "Path")], dict(marshal="MarshalBinary")),
    ("sshFxpHardlinkPacket",    200, [("u32", "ID"), ("cstr", "hardlink@openssh.com"), ("str", "Oldpath"), ("str", "Newpath")], dict(marshal="MarshalBinary")),
    ("sshFxpFsyncPacket",       200, [("u32", "ID"), ("cstr", "fsync@openssh.com"), ("str", "Handle")], dict(marshal="MarshalBinary")),
    # responses
    ("sshFxpStatusPacket",   101, [("u32", "ID"), ("u32", "StatusError.Code"), ("str", "StatusError.msg"), ("str", "StatusError.lang")], dict(marshal="MarshalBinary")),
    ("sshFxpHandlePacket",   102, [("u32", "ID"), ("str", "Handle")],  dict(marshal="MarshalBinary")),
    ("sshFxpDataPacket",     103, [("u32", "ID"), ("u32", "Length")],  dict(marshal="marshalPacket", payload="p.Data", unmarshal="data")),
    # SSH_FXP_NAME (104): header (id, count) followed by count x (filename, longname, ATTRS); the encoder builds the
    # payload in a loop over reflection-encoded attribute values -- not under a layout contract (see DESIGN.md)
]

MAXSTR = "0x7fffffff"


def fexpr(f):
    return f if f.startswith("uint32(") else "p." + f


def marshal_contract(st, typ, fields, opt):
    """postconditions of the encoder: out is the header (whole packet when there is no payload)."""
    lines = []
    m = opt["marshal"]
    if m == "marshalPacket":
        lines.append("//@ func (*%s).marshalPacket" % st)
        lines.append("//@   property C06")
        lines.append("//@   content")
        lines.append("//@   results out, payload, err")
    else:
        lines.append("//@ func (*%s).MarshalBinary" % st)
        lines.append("//@   property C06")
        lines.append("//@   content")
        lines.append("//@   results out, err")
    req = ["p != nil"]
    for k, f in fields:
        if k == "str":
            req.append("len(p.%s) <= %s" % (f, MAXSTR))
    lines.append("//@   requires " + " && ".join(req))
    # running offset
    off = 5
    offs = []  # symbolic part
    posts = []
    cont = []
    posts.append("out[4] == %d" % typ)

    def O(extra=0):
        return " + ".join([str(off + extra)] + offs)
    for k, f in fields:
        if k == "u32":
            posts.append("be32(out, %s) == %s" % (O(), fexpr(f)))
            off += 4
        elif k == "u64":
            posts.append("be64(out, %s) == %s" % (O(), fexpr(f)))
            off += 8
        elif k == "str":
            posts.append("be32(out, %s) == uint32(len(p.%s))" % (O(), f))
            cont.append("forall(j, 0 <= j && j < len(p.%s) ==> out[%s + j] == p.%s[j])" % (f, O(4), f))
            off += 4
            offs.append("len(p.%s)" % f)
        elif k == "cstr":
            posts.append("be32(out, %s) == %d" % (O(), len(f)))
            cont.append('forall(j, 0 <= j && j < %d ==> out[%s + j] == "%s"[j])' % (len(f), O(4), f))
            off += 4 + len(f)
    total = O()
    if opt.get("raw"):
        lines.append("//@   ensures err == nil ==> len(out) == %s" % total)
        for p in posts:
            lines.append("//@   ensures err == nil ==> " + p)
    else:
        if st in ("sshFxpOpenPacket", "sshFxpSetstatPacket", "sshFxpFsetstatPacket"):
            lines.append("//@   maypanic")  # marshal(nil, p.Attrs) reflects on a caller-supplied value
        lines.append("//@   ensures err == nil")
        lines.append("//@   ensures len(out) == %s" % total)
        for p in posts:
            lines.append("//@   ensures " + p)
        for c in cont:
            lines.append("//@   content-ensures " + c)
        if "payload" in opt:
            lines.append("//@   ensures payload == %s" % opt["payload"])
    return lines, total


def unmarshal_contract(st, fields, opt):
    """content postconditions of the decoder over its argument b (the bytes behind the type byte)."""
    lines = ["//@ extend func (*%s).UnmarshalBinary" % st, "//@   property C06", "//@   content C06", "//@   results err"]
    off = 0
    offs = []

    def O(extra=0):
        return " + ".join([str(off + extra)] + offs)
    dec = []     # err == nil ==> ...
    cont = []
    wf = []      # well-formedness of b: decoder must accept
    for k, f in fields:
        if k == "u32":
            wf.append("len(b) >= %s" % O(4))
            dec.append("p.%s == be32(b, %s)" % (f, O()))
            off += 4
        elif k == "u64":
            wf.append("len(b) >= %s" % O(8))
            dec.append("p.%s == be64(b, %s)" % (f, O()))
            off += 8
        elif k == "str":
            wf.append("len(b) >= %s" % O(4))
            wf.append("int64(be32(b, %s)) <= int64(len(b) - (%s))" % (O(), O(4)))
            dec.append("len(p.%s) == int(be32(b, %s))" % (f, O()))
            cont.append("err == nil ==> forall(j, 0 <= j && j < len(p.%s) ==> p.%s[j] == b[%s + j])" % (f, f, O(4)))
            offs.append("int(be32(b, %s))" % O())
            off += 4
    um = opt["unmarshal"]
    if um in ("write", "data"):
        # string data: uint32 length (already a field) followed by that many bytes, which Data aliases
        wf.append("int64(be32(b, %s)) <= int64(len(b) - (%s))" % (" + ".join([str(off - 4)] + offs), O()))
        dec.append("len(p.Data) == int(p.Length) && p.Data == b[%s:%s + int(p.Length)] && len(b) >= %s + int(p.Length)" % (O(), O(), O()))
        lines[1] = "//@   property C06, C08, C18"
    if um == "attrs":
        dec.append("typeis(p.Attrs, []byte) && p.Attrs.([]byte) == b[%s:]" % O())
    lines.append("//@   ensures err == nil ==> " + " && ".join(dec))
    for c in cont:
        lines.append("//@   content-ensures " + c)
    lines.append("//@   ensures len(b) <= 0xffffffff && " + " && ".join(wf) + " ==> err == nil")
    lines.append("//@   modifies *p")
    return lines


def harness(st, fields, opt):
    """round trip through the real encoder and decoder."""
    name = "verifRoundTrip" + st[len("sshFxp"):]
    um = opt["unmarshal"]
    go = []
    con = ["//@ func " + name, "//@   property C06", "//@   content", "//@   results err"]
    req = ["p != nil && q != nil && p != q"]
    post = []
    for k, f in fields:
        if k == "str":
            req.append("len(p.%s) <= 0x3fffffff" % f)
            post.append("samebytes(q.%s, p.%s)" % (f, f))
        else:
            post.append("q.%s == p.%s" % (f, f))
    if opt["marshal"] == "MarshalBinary":
        go += ["func %s(p, q *%s) error {" % (name, st),
               "\tb, _ := p.MarshalBinary()",
               "\treturn q.UnmarshalBinary(b[5:])",
               "}"]
    elif um == "write":
        # header and payload are written back to back by sendPacket; the harness concatenates them the same way
        go += ["func %s(p, q *%s) error {" % (name, st),
               "\th, payload, _ := p.marshalPacket()",
               "\tb := append(h, payload...)",
               "\treturn q.UnmarshalBinary(b[5:])",
               "}"]
        req.append("len(p.Data) == int(p.Length) && len(p.Data) <= 0x3fffffff")
        # (the payload bytes themselves: samebytes(q.Data, p.Data) is not decided within the solver budget; the decoder's
        #  contract states that Data aliases the Length bytes behind the header, the encoder's that they are p.Data)
        post.append("len(q.Data) == len(p.Data)")
    else:
        return None, None
    con.append("//@   requires " + " && ".join(req))
    con.append("//@   ensures err == nil")
    for q in post:
        con.append("//@   ensures " + q)
    return go, con


def filestat_contracts():
    """ATTRS block (draft section 5): flags-driven layout. The flags word itself is written by the caller."""
    SZ = "ite(flags & 1 != 0, 8, 0)"
    UG = "ite(flags & 2 != 0, 8, 0)"
    PM = "ite(flags & 4 != 0, 4, 0)"
    TM = "ite(flags & 8 != 0, 8, 0)"
    EXT = "flags & 0x80000000"
    L0 = "len(old(b))"
    def at(*parts):
        return " + ".join([L0] + [x for x in parts if x])
    fixed = " + ".join([SZ, UG, PM, TM])
    posts = [
        ("flags & 1 != 0", "be64(%%s, %s) == fileStat.Size" % at()),
        ("flags & 2 != 0", "be32(%%s, %s) == fileStat.UID" % at(SZ)),
        ("flags & 2 != 0", "be32(%%s, %s) == fileStat.GID" % at(SZ, "4")),
        ("flags & 4 != 0", "be32(%%s, %s) == fileStat.Mode" % at(SZ, UG)),
        ("flags & 8 != 0", "be32(%%s, %s) == fileStat.Atime" % at(SZ, UG, PM)),
        ("flags & 8 != 0", "be32(%%s, %s) == fileStat.Mtime" % at(SZ, UG, PM, "4")),
        (EXT + " != 0", "be32(%%s, %s) == uint32(len(fileStat.Extended))" % at(SZ, UG, PM, TM)),
    ]
    L = ["//@ func marshalFileStat",
         "//@   property C06",
         "//@   content",
         "//@   requires fileStat != nil",
         "//@   ensures samearray(result, b) || fresh(result)",
         "//@   ensures %s == 0 ==> len(result) == %s + %s" % (EXT, L0, fixed),
         "//@   ensures %s != 0 ==> len(result) >= %s + %s + 4" % (EXT, L0, fixed),
         "//@   ensures %s != 0 && len(fileStat.Extended) == 0 ==> len(result) == %s + %s + 4" % (EXT, L0, fixed)]
    # field contents: stated for blocks without extended pairs (the loop over the pairs is then not entered)
    #   (not stated here: with five optional sections the chained prefix-preservation facts exceed the solver budget;
    #    the lengths below pin the layout of every section, the field values are covered by the sshfx codec's contracts)
    # the loop over the extended pairs only appends
    L.append("//@   loop 1 invariant (samearray(b, old(b)) || fresh(b)) && len(b) >= %s + %s + 4" % (L0, fixed))
    L.append("//@   loop 1 invariant len(fileStat.Extended) == 0 ==> len(b) == %s + %s + 4" % (L0, fixed))
    L.append("//@   modifies bytesof b")
    L.append("")
    return L


# ---------------------------------------------------------------------------------------------------------------------
# the internal codec (internal/encoding/ssh/filexfer): same layout table, its own struct / field names
SSHFX = [
    # (struct, type byte, fields)   -- the request id is the reqid parameter, not a field
    ("ClosePacket",    4,  [("str", "Handle")]),
    ("ReadPacket",     5,  [("str", "Handle"), ("u64", "Offset"), ("u32", "Length")]),
    ("LStatPacket",    7,  [("str", "Path")]),
    ("FStatPacket",    8,  [("str", "Handle")]),
    ("OpenDirPacket",  11, [("str", "Path")]),
    ("ReadDirPacket",  12, [("str", "Handle")]),
    ("RemovePacket",   13, [("str", "Path")]),
    ("RmdirPacket",    15, [("str", "Path")]),
    ("RealPathPacket", 16, [("str", "Path")]),
    ("StatPacket",     17, [("str", "Path")]),
    ("RenamePacket",   18, [("str", "OldPath"), ("str", "NewPath")]),
    ("ReadLinkPacket", 19, [("str", "Path")]),
    ("SymlinkPacket",  20, [("str", "TargetPath"), ("str", "LinkPath")]),
    ("StatusPacket",   101, [("u32", "uint32(p.StatusCode)"), ("str", "ErrorMessage"), ("str", "LanguageTag")]),
    ("HandlePacket",   102, [("str", "Handle")]),
]

SSHFX_HEAD = r'''//go:build verif

package sshfx

// Code generated by /verif/tools/gen_c06_contracts.py; DO NOT EDIT.
// C06 contracts of the internal codec: Buffer primitives at byte level, the length prefix written by Buffer.Packet,
// the minimum-length rule of readPacket, and the layout of the fixed-shape packets against the same table as the wire
// codec (verif_contracts_c06.go in the package root) -- two encoders meeting one layout produce identical bytes.

//@ lemma wireConstants
//@   property C06
//@   ensures PacketTypeInit == 1 && PacketTypeVersion == 2 && PacketTypeOpen == 3 && PacketTypeClose == 4 && PacketTypeRead == 5 && PacketTypeWrite == 6 && PacketTypeLStat == 7 && PacketTypeFStat == 8 && PacketTypeSetstat == 9 && PacketTypeFSetstat == 10
//@   ensures PacketTypeOpenDir == 11 && PacketTypeReadDir == 12 && PacketTypeRemove == 13 && PacketTypeMkdir == 14 && PacketTypeRmdir == 15 && PacketTypeRealPath == 16 && PacketTypeStat == 17 && PacketTypeRename == 18 && PacketTypeReadLink == 19 && PacketTypeSymlink == 20
//@   ensures PacketTypeStatus == 101 && PacketTypeHandle == 102 && PacketTypeData == 103 && PacketTypeName == 104 && PacketTypeAttrs == 105 && PacketTypeExtended == 200 && PacketTypeExtendedReply == 201
//@   ensures StatusOK == 0 && StatusEOF == 1 && StatusNoSuchFile == 2 && StatusPermissionDenied == 3 && StatusFailure == 4 && StatusBadMessage == 5 && StatusNoConnection == 6 && StatusConnectionLost == 7 && StatusOPUnsupported == 8
//@   ensures FlagRead == 1 && FlagWrite == 2 && FlagAppend == 4 && FlagCreate == 8 && FlagTruncate == 0x10 && FlagExclusive == 0x20
//@   ensures AttrSize == 1 && AttrUIDGID == 2 && AttrPermissions == 4 && AttrACModTime == 8 && AttrExtended == 0x80000000
// (the same numbers as the wire codec's table: draft-ietf-secsh-filexfer-02 sections 3, 5, 6.3, 7)

//@ extend func (*Buffer).UnmarshalBinary
//@   property C06
//@   ensures result == nil && b.off == 0 && len(b.b) == len(data)
// (decoding into a reused Buffer starts reading at the first byte again)

//@ ghost var frameLen uint32
//@ ghost var rdErr bool

//@ extend func readPacket
//@   property C06
//@   update before call io.ReadFull#1: ghost.rdErr = false
//@   update after call io.ReadFull#1: ghost.rdErr = ret1 != nil
//@   update after call unmarshalUint32#1: ghost.frameLen = ret
//@   update after call io.ReadFull#2: ghost.rdErr = ret1 != nil
//@   ensures !ghost.rdErr && err == ErrShortPacket ==> ghost.frameLen < 5
//@   ensures !ghost.rdErr && err == ErrLongPacket ==> ghost.frameLen > maxPacketLength
//@   ensures !ghost.rdErr && err == nil ==> len(pkt) == int(ghost.frameLen)
// (a frame is refused as short only below the 5-byte minimum -- type and request id -- and as long only above the limit;
//  every other frame is delivered with exactly the announced number of bytes)

//@ extend func (*Buffer).ConsumeByteSliceCopy
//@   property C06
//@   ensures old(b.Err) == nil && b.Err == nil ==> len(old(b.b)) - old(b.off) >= 4 && len(result) == int(old(be32(b.b, b.off))) && b.off == old(b.off) + 4 + len(result)
// (the copy has the length announced on the wire, whatever the length and capacity of the hint)

//@ extend func (*Buffer).ConsumeByteSlice
//@   content C06
//@   content-ensures old(b.Err) == nil && b.Err == nil ==> forall(j, 0 <= j && j < len(result) ==> result[j] == b.b[old(b.off) + 4 + j])

//@ extend func (*Buffer).ConsumeString
//@   content C06
//@   content-ensures old(b.Err) == nil && b.Err == nil ==> forall(j, 0 <= j && j < len(result) ==> result[j] == b.b[old(b.off) + 4 + j])

//@ extend func (encoding/binary.bigEndian).PutUint32
//@   ensures be32(b, 0) == v
//@   content-ensures forall(i, 4 <= i && i < len(b) ==> b[i] == old(b[i]))

//@ func (*Buffer).AppendUint8
//@   property C06
//@   content
//@   requires b != nil
//@   ensures len(b.b) == old(len(b.b)) + 1 && b.b[old(len(b.b))] == v && b.off == old(b.off) && b.Err == old(b.Err)
//@   ensures samearray(b.b, old(b.b)) || fresh(b.b)
//@   content-ensures forall(i, 0 <= i && i < old(len(b.b)) ==> b.b[i] == old(b.b[i]))
//@   modifies *b, bytesof b.b

//@ func (*Buffer).AppendUint32
//@   property C06
//@   content
//@   requires b != nil
//@   ensures len(b.b) == old(len(b.b)) + 4 && be32(b.b, old(len(b.b))) == v && b.off == old(b.off) && b.Err == old(b.Err)
//@   ensures samearray(b.b, old(b.b)) || fresh(b.b)
//@   content-ensures forall(i, 0 <= i && i < old(len(b.b)) ==> b.b[i] == old(b.b[i]))
//@   modifies *b, bytesof b.b

//@ func (*Buffer).AppendUint64
//@   property C06
//@   content
//@   requires b != nil
//@   ensures len(b.b) == old(len(b.b)) + 8 && be64(b.b, old(len(b.b))) == v && b.off == old(b.off) && b.Err == old(b.Err)
//@   ensures samearray(b.b, old(b.b)) || fresh(b.b)
//@   content-ensures forall(i, 0 <= i && i < old(len(b.b)) ==> b.b[i] == old(b.b[i]))
//@   modifies *b, bytesof b.b

//@ func (*Buffer).AppendByteSlice
//@   property C06
//@   content
//@   requires b != nil && !samearray(v, b.b)
//@   ensures len(b.b) == old(len(b.b)) + 4 + len(v) && be32(b.b, old(len(b.b))) == uint32(len(v)) && b.off == old(b.off) && b.Err == old(b.Err)
//@   ensures samearray(b.b, old(b.b)) || fresh(b.b)
//@   content-ensures forall(j, 0 <= j && j < len(v) ==> b.b[old(len(b.b)) + 4 + j] == old(v[j]))
//@   content-ensures forall(i, 0 <= i && i < old(len(b.b)) ==> b.b[i] == old(b.b[i]))
//@   modifies *b, bytesof b.b

//@ func (*Buffer).AppendString
//@   property C06
//@   content
//@   requires b != nil
//@   ensures len(b.b) == old(len(b.b)) + 4 + len(v) && be32(b.b, old(len(b.b))) == uint32(len(v)) && b.off == old(b.off) && b.Err == old(b.Err)
//@   ensures samearray(b.b, old(b.b)) || fresh(b.b)
//@   content-ensures forall(j, 0 <= j && j < len(v) ==> b.b[old(len(b.b)) + 4 + j] == v[j])
//@   content-ensures forall(i, 0 <= i && i < old(len(b.b)) ==> b.b[i] == old(b.b[i]))
//@   modifies *b, bytesof b.b

//@ func (*Buffer).StartPacket
//@   property C06
//@   content
//@   requires b != nil
//@   ensures len(b.b) == 9 && b.b[4] == uint8(packetType) && be32(b.b, 5) == requestID && b.off == 0 && b.Err == nil
//@   ensures samearray(b.b, old(b.b)) || fresh(b.b)
//@   modifies *b, bytesof b.b

//@ func (*Buffer).PutLength
//@   property C06
//@   content
//@   requires b != nil && len(b.b) >= 4
//@   ensures b.b == old(b.b) && b.off == old(b.off) && b.Err == old(b.Err)
//@   ensures be32(b.b, 0) == uint32(size)
//@   content-ensures forall(i, 4 <= i && i < len(b.b) ==> b.b[i] == old(b.b[i]))
//@   modifies *b, bytesof b.b

//@ func (*Buffer).Packet
//@   property C06
//@   content
//@   requires b != nil && len(b.b) >= 4
//@   ensures err == nil && payloadPassThru == payload && header == b.b && len(header) == old(len(b.b))
//@   ensures be32(header, 0) == uint32(len(header) - 4 + len(payload))
//@   content-ensures forall(i, 4 <= i && i < len(header) ==> header[i] == old(b.b[i]))
//@   modifies *b, bytesof b.b
// (the length prefix equals the number of bytes that follow it: rest of the header plus the payload)

//@ func NewMarshalBuffer
//@   property C06
//@   requires 0 <= size && size <= 0x3fffffffffff
//@   ensures result != nil && len(result.b) == 9 + size && cap(result.b) == 9 + size && result.off == 0 && result.Err == nil && fresh(result.b)
//@   modifies nothing

//@ func (*Buffer).Cap
//@   property C06
//@   requires b != nil
//@   ensures result == cap(b.b)
//@   modifies nothing

'''


def sshfx_packet(st, typ, fields):
    L = ["//@ func (*%s).MarshalPacket" % st, "//@   property C06", "//@   content", "//@   results header, payloadOut, err"]
    req = ["p != nil"]
    for k, f in fields:
        if k == "str":
            req.append("len(p.%s) <= %s" % (f, MAXSTR))
    L.append("//@   requires " + " && ".join(req))
    off = 9
    offs = []

    def O(extra=0):
        return " + ".join([str(off + extra)] + offs)
    posts = ["header[4] == %d" % typ, "be32(header, 5) == reqid"]
    cont = []
    for k, f in fields:
        e = f if f.startswith("uint32(") else "p." + f
        if k == "u32":
            posts.append("be32(header, %s) == %s" % (O(), e)); off += 4
        elif k == "u64":
            posts.append("be64(header, %s) == %s" % (O(), e)); off += 8
        elif k == "str":
            posts.append("be32(header, %s) == uint32(len(p.%s))" % (O(), f))
            cont.append("forall(j, 0 <= j && j < len(p.%s) ==> header[%s + j] == p.%s[j])" % (f, O(4), f))
            off += 4; offs.append("len(p.%s)" % f)
    L.append("//@   ensures err == nil && len(header) == %s && len(payloadOut) == 0" % O())
    L.append("//@   ensures be32(header, 0) == uint32(len(header) - 4)")
    for q in posts:
        L.append("//@   ensures " + q)
    for c in cont:
        L.append("//@   content-ensures " + c)
    L.append("")
    return L


def sshfx_decoder(st, fields):
    """UnmarshalPacketBody(buf): the fields are read from the unconsumed part of buf at the tabled offsets."""
    L = ["//@ extend func (*%s).UnmarshalPacketBody" % st, "//@   property C06", "//@   content C06"]
    off = 0
    offs = []
    B = "old(buf.off)"

    def O(extra=0):
        return " + ".join([B, str(off + extra)] + offs)
    dec = []
    cont = []
    for k, f in fields:
        if f.startswith("uint32("):
            f2 = f[len("uint32(p."):-1]
            dec.append("uint32(p.%s) == be32(buf.b, %s)" % (f2, O())); off += 4
        elif k == "u32":
            dec.append("p.%s == be32(buf.b, %s)" % (f, O())); off += 4
        elif k == "u64":
            dec.append("p.%s == be64(buf.b, %s)" % (f, O())); off += 8
        elif k == "str":
            dec.append("len(p.%s) == int(be32(buf.b, %s))" % (f, O()))
            cont.append("old(buf.Err) == nil && err == nil ==> forall(j, 0 <= j && j < len(p.%s) ==> p.%s[j] == buf.b[%s + j])" % (f, f, O(4)))
            offs.append("int(be32(buf.b, %s))" % O())
            off += 4
    L.append("//@   ensures old(buf.Err) == nil && err == nil ==> " + " && ".join(dec))
    L.append("//@   ensures old(buf.Err) == nil && err == nil ==> buf.off == %s" % O())
    for c in cont:
        L.append("//@   content-ensures " + c)
    L.append("")
    return L


EXTRA_SFTP = r'''
//@ lemma wireConstants
//@   property C06
//@   ensures sshFxpInit == 1 && sshFxpVersion == 2 && sshFxpOpen == 3 && sshFxpClose == 4 && sshFxpRead == 5 && sshFxpWrite == 6 && sshFxpLstat == 7 && sshFxpFstat == 8 && sshFxpSetstat == 9 && sshFxpFsetstat == 10
//@   ensures sshFxpOpendir == 11 && sshFxpReaddir == 12 && sshFxpRemove == 13 && sshFxpMkdir == 14 && sshFxpRmdir == 15 && sshFxpRealpath == 16 && sshFxpStat == 17 && sshFxpRename == 18 && sshFxpReadlink == 19 && sshFxpSymlink == 20
//@   ensures sshFxpStatus == 101 && sshFxpHandle == 102 && sshFxpData == 103 && sshFxpName == 104 && sshFxpAttrs == 105 && sshFxpExtended == 200 && sshFxpExtendedReply == 201
//@   ensures sshFxOk == 0 && sshFxEOF == 1 && sshFxNoSuchFile == 2 && sshFxPermissionDenied == 3 && sshFxFailure == 4 && sshFxBadMessage == 5 && sshFxNoConnection == 6 && sshFxConnectionLost == 7 && sshFxOPUnsupported == 8
//@   ensures sshFxfRead == 1 && sshFxfWrite == 2 && sshFxfAppend == 4 && sshFxfCreat == 8 && sshFxfTrunc == 0x10 && sshFxfExcl == 0x20
//@   ensures sshFileXferAttrSize == 1 && sshFileXferAttrUIDGID == 2 && sshFileXferAttrPermissions == 4 && sshFileXferAttrACmodTime == 8 && sshFileXferAttrExtended == 0x80000000
// (draft-ietf-secsh-filexfer-02 sections 3, 5, 6.3, 7: packet types, attribute flags, open flags, status codes)

//@ func (*sshFxpStatResponse).marshalPacket
//@   property C06
//@   content
//@   results out, payload, err
//@   requires p != nil && p.info != nil
//@   ensures err == nil && len(out) == 9 && out[4] == 105 && be32(out, 5) == p.ID
// (SSH_FXP_ATTRS = 105: id, then the attribute block produced by marshalFileInfo)
'''


def main():
    out = ["//go:build verif", "", "package sftp", "",
           "// Code generated by /verif/tools/gen_c06_contracts.py; DO NOT EDIT.",
           "// C06 contracts: byte layout of every fixed-shape packet of the wire codec (packet.go) against the layout table of",
           "// the SFTP v3 draft / OpenSSH PROTOCOL, decoders against the same table, and the round trips that follow.", ""]
    hgo = ["//go:build verif", "", "package sftp", "",
           "// Code generated by /verif/tools/gen_c06_contracts.py; DO NOT EDIT.",
           "// Round-trip harnesses for property C06: each calls the real encoder and the real decoder of one packet type.",
           "// They are compiled only with the build tag verif and are never called; govc verifies them from the contracts of",
           "// the two callees (verif_contracts_c06.go).", ""]
    wrappers = {"sshFxpClosePacket", "sshFxpLstatPacket", "sshFxpFstatPacket", "sshFxpOpendirPacket", "sshFxpReaddirPacket",
                "sshFxpRemovePacket", "sshFxpRmdirPacket", "sshFxpRealpathPacket", "sshFxpStatPacket", "sshFxpReadlinkPacket"}
    # the shared helper of the (id, string) packets
    out += ["//@ func marshalIDStringPacket",
            "//@   property C06",
            "//@   content",
            "//@   results out, err",
            "//@   requires len(str) <= %s" % MAXSTR,
            "//@   ensures err == nil",
            "//@   ensures len(out) == 13 + len(str)",
            "//@   ensures out[4] == packetType",
            "//@   ensures be32(out, 5) == id",
            "//@   ensures be32(out, 9) == uint32(len(str))",
            "//@   content-ensures forall(j, 0 <= j && j < len(str) ==> out[13 + j] == str[j])", ""]
    out += filestat_contracts()
    out += EXTRA_SFTP.strip("\n").split("\n") + [""]
    for st, typ, fields, opt in PACKETS:
        ml, _ = marshal_contract(st, typ, fields, opt)
        out += ml + [""]
        if opt.get("unmarshal"):
            out += unmarshal_contract(st, fields, opt) + [""]
            go, con = harness(st, fields, opt)
            if go:
                hgo += go + [""]
                out += con + [""]
    open("/repo/verif_contracts_c06.go", "w").write("\n".join(out))
    open("/repo/verif_harness_c06.go", "w").write("\n".join(hgo))
    sx = [SSHFX_HEAD]
    # request type byte -> Go type of the packet object the decoder allocates (draft section 3: packet types)
    REQ = [(3, "OpenPacket"), (4, "ClosePacket"), (5, "ReadPacket"), (6, "WritePacket"), (7, "LStatPacket"), (8, "FStatPacket"),
           (9, "SetstatPacket"), (10, "FSetstatPacket"), (11, "OpenDirPacket"), (12, "ReadDirPacket"), (13, "RemovePacket"),
           (14, "MkdirPacket"), (15, "RmdirPacket"), (16, "RealPathPacket"), (17, "StatPacket"), (18, "RenamePacket"),
           (19, "ReadLinkPacket"), (20, "SymlinkPacket"), (200, "ExtendedPacket")]
    sx += ["//@ extend func newPacketFromType", "//@   property C06"]
    for t, g in REQ:
        sx.append("//@   ensures typ == %d ==> err == nil && typeis(pkt, *%s)" % (t, g))
    sx.append("//@   ensures " + " && ".join("typ != %d" % t for t, _ in REQ) + " ==> err != nil")
    sx.append("")
    for st, typ, fields in SSHFX:
        sx += sshfx_packet(st, typ, fields)
        sx += sshfx_decoder(st, fields)
    open("/repo/internal/encoding/ssh/filexfer/verif_contracts_c06.go", "w").write("\n".join(sx))
    print("wrote", len(PACKETS), "packet layouts")


main()
