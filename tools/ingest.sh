#!/bin/bash
# usage: ingest.sh <worktree-prefix e.g. /tmp/seed3-> <property> <first new index> [first-contact log]
pre="$1"; id="$2"; base="$3"; fclog="${4:-/dev/null}"
cd /verif
for k in 1 2 3; do
  r=$(tools/confirm_seed.sh ${pre}${id}/out/m$k 2>&1 | grep -E "^CONFIRMED|^NOT-CONFIRMED" | tr '\n' ' ')
  if [ "$r" != "CONFIRMED " ]; then r=$(tools/confirm_seed.sh ${pre}${id}/out/m$k 2>&1 | grep -E "^CONFIRMED|^NOT-CONFIRMED" | tr '\n' ' '); fi
  echo "$id-m$k: $r"
  if [ "$r" = "CONFIRMED " ]; then python3 tools/store_seed.py ${pre}${id}/out/m$k $id-$((base+k-1)) >/dev/null; fi
done
git -C /repo worktree remove --force ${pre}${id}; rm -rf ${pre}${id}; git -C /repo worktree prune
for k in 0 1 2; do [ -d seeded/$id-$((base+k)) ] && tools/run_seeds.sh $id-$((base+k)) | cut -c1-220 | tee -a "$fclog"; done
