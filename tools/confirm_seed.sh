#!/bin/bash
# usage: confirm_seed.sh <seed-dir containing patch.diff, demo file(s), meta.json>
# Confirms in a fresh scratch worktree of /repo HEAD: suite passes with the change, demo fails with it, demo passes without it.
set -u
sd="$1"
export GOFLAGS=-mod=mod GOPROXY=off
wt=$(mktemp -d /tmp/confirm-XXXXXX)
git -C /repo worktree add -q --detach "$wt" HEAD || exit 2
cleanup() { git -C /repo worktree remove --force "$wt" >/dev/null 2>&1; rm -rf "$wt"; }
trap cleanup EXIT
cd "$wt"
demo_cmd=$(python3 -c "import json,sys;print(json.load(open('$sd/meta.json'))['demo_cmd'])")
mkdir -p out/$(basename "$sd"); cp "$sd"/* out/$(basename "$sd")/ 2>/dev/null; echo "module seedout" > out/go.mod
# rewrite paths in demo_cmd: out/mK/ -> out/<basename>/
demo_cmd=$(echo "$demo_cmd" | sed "s#out/m[0-9]*/#out/$(basename "$sd")/#g")
echo "demo_cmd: $demo_cmd"
# without change
( eval "$demo_cmd" ) > /tmp/confirm-clean.log 2>&1; rc_clean=$?
grep -qE "^(FAIL|--- FAIL|panic:)" /tmp/confirm-clean.log && rc_clean=1
git checkout -q -- . ; git clean -fdq -e out
git apply "$sd/patch.diff" || { echo "RESULT patch-does-not-apply"; exit 1; }
go build ./... > /tmp/confirm-build.log 2>&1; rc_build=$?
go test -vet=off -count=1 ./... > /tmp/confirm-suite.log 2>&1; rc_suite=$?
( eval "$demo_cmd" ) > /tmp/confirm-mut.log 2>&1; rc_mut=$?
grep -qE "^(FAIL|--- FAIL|panic:)" /tmp/confirm-mut.log && rc_mut=1
echo "RESULT build=$rc_build suite_with_change=$rc_suite demo_with_change=$rc_mut demo_without_change=$rc_clean"
if [ $rc_build -eq 0 ] && [ $rc_suite -eq 0 ] && [ $rc_mut -ne 0 ] && [ $rc_clean -eq 0 ]; then echo CONFIRMED; else echo NOT-CONFIRMED; tail -5 /tmp/confirm-suite.log; fi
